(* ========================================================================== *)
(* C15 — Clone is an equal, independent copy made with exactly one clone per
         element

   STATEMENT (properties.jsonl):
     "A clone holds exactly the same entries as the original and compares equal
      to it, is produced by cloning each stored key and each stored value
      exactly once, and is fully independent: later changes to, or destruction
      of, either container leave the other untouched."
   QUANTIFIER:
     "every reachable container state (all fill levels, N >= 0), followed by
      arbitrary operations on either copy"

   READING GUIDE
   -------------
   The model of src/clone.rs is [clone_from_src E src] (Model/MapOps.v): it
   runs with [self w] = the fresh container being built (Map::new(), len 0,
   same capacity) and takes the original [src] as an ARGUMENT (a shared
   borrow).  [WF m] (Proofs/Inv.v) is the representation invariant
   "len <= cap and slots [0,len) initialised"; every reachable state satisfies
   it (C02/C04: ExecSafe.step_safe), so "forall src, WF src" covers every fill
   level 0..N and every N >= 0.  [Spec.elems m] is the live prefix as a list,
   in slot (= iteration) order.  [wp c Qn Qp w] : running c from w is not UB,
   and Qn holds on normal return / Qp after a panic.

   * "holds exactly the same entries as the original"
       C15_clone_lawful : if K::clone returns a key of the same equality class
       and V::clone returns an equal value (premises HCK / HCV, which also
       say that Clone does not panic), then the clone is well formed, has the
       capacity and the length of the original, and its entries are, POSITION
       BY POSITION (Forall2 over the two elems lists, i.e. same internal
       order), a key of the same class with an equal value.  It never panics
       (panic postcondition False).
   * "and compares equal to it"
       C15_clone_equal : any list related entry-by-entry in that way to a list
       with pairwise different keys has pairwise different keys itself, and the
       boolean computed by PartialEq on (original, clone) is true.  That this
       boolean IS what the crate's == (model: map_eq) returns is
       EqClone.map_eq_lawful, stated in Props/C14.v; the two are not composed
       into a single theorem here (C15_example_equal runs the composition on a
       concrete container).
   * "produced by cloning each stored key and each stored value exactly once"
       last conjunct of C15_clone_lawful: the event log grows by EXACTLY
       [EvCloneK (identities of key_i); EvCloneV (identities of value_i)] for
       i = 0..len-1 in slot order — one K::clone and one V::clone per live
       entry, on the stored objects themselves, none for dead slots, none
       twice.  The events are emitted by the model immediately before each
       callback, independently of the environment.
   * "fully independent: later changes to, or destruction of, either container
      leave the other untouched"
       PARTLY carried by theorems since Proofs/Gaps.v and Proofs/Owned2.v:
       C15_clone_acct (ANY environment): the clone owns exactly the objects the
         Clone callbacks returned, one pair per stored entry, and cloning
         destroys nothing; on a Clone panic the objects destroyed are exactly
         the objects the Clone callbacks returned during this call (d is a
         permutation of `made` ++ `orphan`, the key cloned just before its
         value's Clone panicked) - objects of the original only if Clone handed
         them back - and the abandoned clone holds nothing.
       C15_clone_ids_fresh / C15_clone_disjoint_from_source: if Clone returns
         new objects (premises HFK / HFV), no object stored in the clone is an
         object stored in the original (nor any of a given list `avoid`), so
         destroying or changing the elements of one copy cannot touch an
         element of the other.  CAVEAT: HFK / HFV are quantified over EVERY
         callback state; they hold of an environment whose Clone is fresh
         regardless of state (C15_example_fresh_hyps) but not of the scripted
         env_map / env_set, whose new identities come from a counter in the
         callback state (for these, freshness on the actual run is the
         concrete C15_example_run and the harness's ledger).
       The rest of the argument stays at model level: containers are
       VALUES: the original is the argument [src], which [clone_from_src]
       cannot modify, and the clone is the new [self]; no later operation on
       one register of the interpreter (Exec.step: put_m / put_s) can reach
       the other.  The objects stored in the clone are exactly those RETURNED
       by the Clone callbacks (the k' / v' of HCK / HCV; fresh identities under
       the scripted environment, see C15_example_run), never the originals —
       that is what rules out sharing at the level of the model.  That the
       Rust code has the same independence (no aliasing of storage between
       the two Maps; destroying one does not destroy the other's elements) is
       left to the correspondence check (harness: contents of both copies
       before/after mutating or dropping one of them, ledger balance).
   * every environment (Clone may panic or misbehave)
       C15_clone_safe : for ANY environment, from a well-formed original and an
       empty target of the same capacity, clone never causes UB; on normal
       return the clone is well formed, keeps its capacity and has len = len
       of the original.  When a Clone callback panics the partially built
       clone is destroyed by the unwinding (finally_drop) without UB (panic
       postcondition True: nothing further is claimed).  This is the repaired
       code; the original code is refuted in Props/C04.v (Legacy F1).
   * the premises HCK / HCV are satisfiable
       C15_env_map_cloneK, C15_env_map_cloneV : the scripted environment of the
       correspondence check, run with an honest script (no adversarial ==, no
       injected fault), satisfies HCK / HCV with ck = kcls and
       veq a b = (vdat a =? vdat b); C15_clone_honest_map is C15_clone_lawful
       instantiated there WITHOUT its last conjunct (CORRECTED, second audit:
       the log clause "exactly one clone per element" is dropped by that
       theorem; the full instance, log clause included, is
       C15_clone_honest_map_full / C15_clone_honest_set_full in the ROUND 2
       section at the end of this file).
       C15_env_set_cloneK, C15_env_set_cloneV : the same for the Set environment
       env_set (V = unit, veq = fun _ _ => true), so that C15_clone_lawful /
       C15_clone_equal apply to Set<T,N> = Map<T,(),N> under the honest script.

   PARTLY COVERED / NOT COVERED BY A THEOREM
     [UPDATE, audit: see the APPENDED SECTION at the end of this file:
      clone composed with == in one theorem (C15_clone_compares_equal); the
      run-relative replacement of C15_clone_ids_fresh, which env_map / env_set
      satisfy (C15_clone_disjoint_run, C15_clone_disjoint_env_map); destruction
      of either copy (C15_clone_destruction_independent); later changes to
      either copy at the interpreter, every script
      (C15_clone_then_changes_independent); the Set analogue
      C15_clone_honest_set.]
     - independence (above): identity-level theorems (C15_clone_acct,
       C15_clone_ids_fresh, C15_clone_disjoint_from_source) + model-level
       argument for the storage + correspondence check; "arbitrary operations
       on either copy" afterwards are not composed with these into one theorem.
     - Set<T,N> (src/set/clone.rs) is Map<T,(),N>: the generic theorems hold for
       V = unit and their premises are now instantiated for env_set
       (C15_env_set_cloneK / V); there is no Set analogue of
       C15_clone_honest_map in this file.
     - "exactly once" is proved under HCK / HCV (Clone does not panic).  When a
       Clone panics, safety (C15_clone_safe) and the ledger balance
       (C15_clone_acct, panic clause) are claimed.                            *)
(* ========================================================================== *)
Require Import Model.Base Model.Slots Model.MapOps Model.Exec.
Require Import Proofs.Hoare Proofs.Inv Proofs.Safety Proofs.Safety2 Proofs.Spec Proofs.Lawful.
Require Import Proofs.EqClone Proofs.FmtSerde Proofs.Legacy Proofs.Owned Proofs.Owned2 Proofs.Gaps.
From Coq Require Import Permutation.

(* -------------------------------------------------------------------------- *)
(* EqClone.clone_lawful                                                        *)
Theorem C15_clone_lawful :
  forall (K V Q T : Type) (E : env K V Q T) (ck : K -> N) (veq : V -> V -> bool),
    (* HCK: K::clone returns (does not panic) a key of the same class *)
    (forall (s : T) (k : K), exists (k' : K) (s' : T), cloneK E s k = (Some k', s') /\ ck k' = ck k) ->
    (* HCV: V::clone returns (does not panic) an equal value *)
    (forall (s : T) (v : V), exists (v' : V) (s' : T), cloneV E s v = (Some v', s') /\ veq v' v = true) ->
    forall (src : map K V) (w : world K V T),
      WF src -> WF (self w) -> len (self w) = 0 -> cap (self w) = cap src ->
      wp (clone_from_src E src)
         (fun (_ : unit) (w' : world K V T) =>
            WF (self w') /\
            cap (self w') = cap src /\
            len (self w') = len src /\
            Forall2 (fun p p' : K * V => ck (fst p') = ck (fst p) /\ veq (snd p') (snd p) = true)
                    (Spec.elems src) (Spec.elems (self w')) /\
            logged w w'
              (flat_map (fun p : K * V => List.map EvCloneK (idK E (fst p)) ++ List.map EvCloneV (idV E (snd p)))
                        (Spec.elems src)))
         (fun _ : world K V T => False)
         w.
Proof. exact (@clone_lawful). Qed.
Print Assumptions C15_clone_lawful.

(* -------------------------------------------------------------------------- *)
(* EqClone.clone_equal                                                         *)
Theorem C15_clone_equal :
  forall (K V : Type) (ck : K -> N) (veq : V -> V -> bool) (la lb : list (K * V)),
    Uniq ck la ->
    Forall2 (fun p p' : K * V => ck (fst p') = ck (fst p) /\ veq (snd p') (snd p) = true) la lb ->
    Uniq ck lb /\
    (length la =? length lb) && forallb (entry_ok_in ck veq lb) la = true.
Proof. exact (@clone_equal). Qed.
Print Assumptions C15_clone_equal.

(* -------------------------------------------------------------------------- *)
(* Safety2.clone_safe — every environment                                      *)
Theorem C15_clone_safe :
  forall (K V Q T : Type) (E : env K V Q T) (src : map K V) (w : world K V T),
    WF src -> WF (self w) -> len (self w) = 0 -> cap (self w) = cap src ->
    wp (clone_from_src E src)
       (fun (_ : unit) (w' : world K V T) => inv_post w w' /\ len (self w') = len src)
       (fun _ : world K V T => True)
       w.
Proof. exact (@Safety2.clone_safe). Qed.
Print Assumptions C15_clone_safe.

(* -------------------------------------------------------------------------- *)
(* FmtSerde.clone_honest_map                                                   *)
Theorem C15_clone_honest_map :
  forall (sc : script) (src : map key vobj) (w : world key vobj cstate),
    honest sc ->
    WF src -> WF (self w) -> len (self w) = 0 -> cap (self w) = cap src ->
    wp (clone_from_src (env_map sc) src)
       (fun (_ : unit) (w' : world key vobj cstate) =>
          WF (self w') /\
          cap (self w') = cap src /\
          len (self w') = len src /\
          Forall2 (fun p p' : key * vobj =>
                     kcls (fst p') = kcls (fst p) /\ (vdat (snd p') =? vdat (snd p))%N = true)
                  (Spec.elems src) (Spec.elems (self w')))
       (fun _ : world key vobj cstate => False)
       w.
Proof. exact clone_honest_map. Qed.
Print Assumptions C15_clone_honest_map.

(* -------------------------------------------------------------------------- *)
(* FmtSerde.env_map_cloneK / env_map_cloneV                                    *)
Theorem C15_env_map_cloneK :
  forall sc : script,
    honest sc ->
    forall (s : cstate) (k : key),
    exists (k' : key) (s' : cstate),
      cloneK (env_map sc) s k = (Some k', s') /\ kcls k' = kcls k.
Proof. exact env_map_cloneK. Qed.
Print Assumptions C15_env_map_cloneK.

Theorem C15_env_map_cloneV :
  forall sc : script,
    honest sc ->
    forall (s : cstate) (v : vobj),
    exists (v' : vobj) (s' : cstate),
      cloneV (env_map sc) s v = (Some v', s') /\ (vdat v' =? vdat v)%N = true.
Proof. exact env_map_cloneV. Qed.
Print Assumptions C15_env_map_cloneV.

(* -------------------------------------------------------------------------- *)
(* FmtSerde.env_set_cloneK / env_set_cloneV: HCK / HCV for the Set environment
   of the correspondence check (ck = kcls; the unit value: veq = fun _ _ => true,
   cloning () needs no honesty)                                                *)
Theorem C15_env_set_cloneK :
  forall sc : script,
    honest sc ->
    forall (s : cstate) (k : key),
    exists (k' : key) (s' : cstate),
      cloneK (env_set sc) s k = (Some k', s') /\ kcls k' = kcls k.
Proof. exact env_set_cloneK. Qed.
Print Assumptions C15_env_set_cloneK.

Theorem C15_env_set_cloneV :
  forall (sc : script) (s : cstate) (v : unit),
    exists (v' : unit) (s' : cstate),
      cloneV (env_set sc) s v = (Some v', s') /\ (fun _ _ : unit => true) v' v = true.
Proof. exact env_set_cloneV. Qed.
Print Assumptions C15_env_set_cloneV.

(* -------------------------------------------------------------------------- *)
(* independence at the level of object identities (Proofs/Gaps.v).
   idK E k / idV E v are the ledger identities of a key / value object.
   HFK / HFV below: whatever Clone returns - in ANY callback state - carries no
   identity of the list `avoid`.
   CORRECTED COMMENT (audit): HFK / HFV quantify over EVERY callback state, so
   for a non-empty `avoid` they are UNSATISFIABLE by any environment that takes
   new identities from a counter in the callback state - in particular by
   env_map / env_set and by the harness.  The two theorems below therefore never
   apply to the checked system (only to artificial environments such as
   C15_env_fresh); they are kept for the record.  They are REPLACED by the
   run-relative theorems of the appended section (C15_clone_disjoint_run,
   C15_clone_disjoint_env_map, C15_clone_disjoint_env_set), whose hypothesis
   speaks only about the identities the Clone calls of THE RUN AT HAND return
   and is proved to hold of env_map / env_set for every script.               *)
Theorem C15_clone_ids_fresh :
  forall (K V Q T : Type) (E : env K V Q T) (avoid : list N) (ck : K -> N) (veq : V -> V -> bool)
         (src : map K V) (w : world K V T),
    (* HCK *)
    (forall (s : T) (k : K), exists (k' : K) (s' : T), cloneK E s k = (Some k', s') /\ ck k' = ck k) ->
    (* HCV *)
    (forall (s : T) (v : V), exists (v' : V) (s' : T), cloneV E s v = (Some v', s') /\ veq v' v = true) ->
    (* HFK: a cloned key is a new object *)
    (forall (s : T) (k k' : K) (s' : T),
        cloneK E s k = (Some k', s') -> forall x : N, In x (idK E k') -> ~ In x avoid) ->
    (* HFV: a cloned value is a new object *)
    (forall (s : T) (v v' : V) (s' : T),
        cloneV E s v = (Some v', s') -> forall x : N, In x (idV E v') -> ~ In x avoid) ->
    WF src -> WF (self w) -> len (self w) = 0 -> cap (self w) = cap src ->
    wp (clone_from_src E src)
       (fun (_ : unit) (w' : world K V T) =>
          forall p : K * V,
            In p (Spec.elems (self w')) ->
            forall x : N, In x (idK E (fst p) ++ idV E (snd p)) -> ~ In x avoid)
       (fun _ : world K V T => False)
       w.
Proof. exact (@clone_ids_fresh). Qed.
Print Assumptions C15_clone_ids_fresh.

(* with avoid := all identities stored in the original: no object of the clone is
   an object of the original, entry by entry *)
Theorem C15_clone_disjoint_from_source :
  forall (K V Q T : Type) (E : env K V Q T) (ck : K -> N) (veq : V -> V -> bool)
         (src : map K V) (w : world K V T),
    let avoid := flat_map (fun p : K * V => idK E (fst p) ++ idV E (snd p)) (Spec.elems src) in
    (forall (s : T) (k : K), exists (k' : K) (s' : T), cloneK E s k = (Some k', s') /\ ck k' = ck k) ->
    (forall (s : T) (v : V), exists (v' : V) (s' : T), cloneV E s v = (Some v', s') /\ veq v' v = true) ->
    (forall (s : T) (k k' : K) (s' : T),
        cloneK E s k = (Some k', s') -> forall x : N, In x (idK E k') -> ~ In x avoid) ->
    (forall (s : T) (v v' : V) (s' : T),
        cloneV E s v = (Some v', s') -> forall x : N, In x (idV E v') -> ~ In x avoid) ->
    WF src -> WF (self w) -> len (self w) = 0 -> cap (self w) = cap src ->
    wp (clone_from_src E src)
       (fun (_ : unit) (w' : world K V T) =>
          forall p q : K * V,
            In p (Spec.elems (self w')) ->
            In q (Spec.elems src) ->
            forall x : N,
              In x (idK E (fst p) ++ idV E (snd p)) ->
              ~ In x (idK E (fst q) ++ idV E (snd q)))
       (fun _ : world K V T => False)
       w.
Proof. exact (@clone_disjoint_from_source). Qed.
Print Assumptions C15_clone_disjoint_from_source.

(* -------------------------------------------------------------------------- *)
(* Owned2.clone_acct: ledger accounting of Clone for ANY environment.
   owned E m = the identities held in any slot of m; dropped l = the identities
   destroyed according to log l; ids_pair E p = idK E (fst p) ++ idV E (snd p);
   clone_made E src n i s = the pairs the Clone callbacks return, in order, when
   cloning slots i, i+1, ... of src from callback state s, up to the first
   Clone panic; Tidy m = no element sits beyond len (true of Map::new()).
   Normal return: the clone owns exactly the len src pairs the callbacks made -
   one per stored entry - and NOTHING has been destroyed (the original's objects
   are untouched: they are not even mentioned).
   Panic (model change of 2026-10-01: a panic unwinds through the partial clone
   with the panic-free unwind_map, and clone_pair destroys the freshly cloned
   key when the value's Clone panics): clone_orphans E src n i s = the identities
   of that orphan key ([] when it is a K::clone that panicked).  EVERYTHING made
   by this run - the pairs written so far and the orphan key - has been
   destroyed, each exactly once (d is a permutation of made ++ orphan), nothing
   else was destroyed, and the abandoned clone holds nothing.                  *)
Theorem C15_clone_acct :
  forall (K V Q T : Type) (E : env K V Q T) (src : map K V) (w : world K V T),
    WF src -> WF (self w) -> len (self w) = 0 -> cap (self w) = cap src -> Tidy (self w) ->
    let made := flat_map (ids_pair E) (clone_made E src (len src) 0 (cb w)) in
    let orphan := clone_orphans E src (len src) 0 (cb w) in
    wp (clone_from_src E src)
       (fun (_ : unit) (w' : world K V T) =>
          WF (self w') /\
          Tidy (self w') /\
          len (self w') = len src /\
          length (clone_made E src (len src) 0 (cb w)) = len src /\
          dropped (log w') = dropped (log w) /\
          Permutation (owned E (self w')) made)
       (fun w' : world K V T =>
          owned E (self w') = [] /\
          exists d : list N,
            dropped (log w') = dropped (log w) ++ d /\
            Permutation d (made ++ orphan))
       w.
Proof. exact (@clone_acct). Qed.
Print Assumptions C15_clone_acct.

(* -------------------------------------------------------------------------- *)
(* Non-vacuity.  m3 (Proofs/Legacy.v) is the 3-entry map
     [ (K1 c5, V2 d7); (K3 c6, V4 d8); (K5 c7, V6 d9) ]  with capacity 3.       *)
Definition C15_sc0 : script := {| sc_adv := false; sc_seed := 0; sc_fk := 0; sc_fa := 0 |}.

Example C15_example_WF_src : WF m3.
Proof. exact m3_WF. Qed.

Example C15_example_target :
  WF (self (w_of (new_map 3))) /\ len (self (w_of (new_map 3))) = 0 /\
  cap (self (w_of (new_map 3))) = cap m3.
Proof. split; [apply WF_new | split; reflexivity]. Qed.

Example C15_example_Uniq : Uniq kcls (Spec.elems m3).
Proof.
  unfold Uniq. vm_compute.
  repeat (constructor; [cbn [In]; intuition discriminate|]). constructor.
Qed.

Example C15_example_honest : honest C15_sc0.
Proof. split; reflexivity. Qed.

Example C15_example_lawful : Lawful (env_map C15_sc0) kcls qcls.
Proof. exact (env_map_lawful C15_sc0 C15_example_honest). Qed.

(* the clone of m3 under the honest script: six fresh objects (ids 100000..),
   same classes / payloads, same order; the log shows one clone call per stored
   object (ids 1..6), keys before values, in slot order *)
Example C15_example_run :
  clone_from_src (env_map C15_sc0) m3 (w_of (new_map 3)) =
  Ok tt
     {| cb := {| n_eq := 0; n_clone := 6; n_call := 0; next_id := 100006 |};
        log := [EvCloneK 1; EvCloneV 2; EvCloneK 3; EvCloneV 4; EvCloneK 5; EvCloneV 6];
        self := {| len := 3;
                   slots := [Some ({| kid := 100000; kcls := 5 |}, {| vid := 100001; vdat := 7 |});
                             Some ({| kid := 100002; kcls := 6 |}, {| vid := 100003; vdat := 8 |});
                             Some ({| kid := 100004; kcls := 7 |}, {| vid := 100005; vdat := 9 |})] |} |}.
Proof. vm_compute. reflexivity. Qed.

(* ... and the crate's == on (original, that clone) answers true, leaving
   both untouched *)
Example C15_example_equal :
  match clone_from_src (env_map C15_sc0) m3 (w_of (new_map 3)) with
  | Ok _ w' =>
      match map_eq (env_map C15_sc0) m3 (self w') (w_of m3) with
      | Ok b w'' => b = true /\ self w'' = m3 /\ log w'' = []
      | _ => False
      end
  | _ => False
  end.
Proof. vm_compute. repeat split. Qed.

(* HFK / HFV of C15_clone_ids_fresh / C15_clone_disjoint_from_source quantify over
   EVERY callback state.  They are satisfiable: take the honest environment but
   let Clone name its result old id + 1000 (state-independent); with avoid = the
   six identities 1..6 stored in m3 all four premises hold.  (They do NOT hold of
   env_map itself for a non-empty avoid list: its Clone takes the new identity
   from the counter next_id of the callback state, and the premises range over
   states whose counter points into avoid; see the header.) *)
Definition C15_env_fresh : env key vobj query cstate :=
  {| eqK := eqK (env_map C15_sc0); eqKQ := eqKQ (env_map C15_sc0);
     eqQQ := eqQQ (env_map C15_sc0); eqQK := eqQK (env_map C15_sc0);
     eqV := eqV (env_map C15_sc0);
     cloneK := fun s k => (Some {| kid := kid k + 1000; kcls := kcls k |}, s);
     cloneV := fun s v => (Some {| vid := vid v + 1000; vdat := vdat v |}, s);
     dropK := dropK (env_map C15_sc0); dropV := dropV (env_map C15_sc0);
     idK := fun k => [kid k]; idV := fun v => [vid v] |}.

Example C15_example_fresh_hyps :
  let E := C15_env_fresh in
  let avoid := flat_map (fun p : key * vobj => idK E (fst p) ++ idV E (snd p)) (Spec.elems m3) in
  avoid = [1; 2; 3; 4; 5; 6]%N /\
  (forall (s : cstate) (k : key), exists (k' : key) (s' : cstate),
      cloneK E s k = (Some k', s') /\ kcls k' = kcls k) /\
  (forall (s : cstate) (v : vobj), exists (v' : vobj) (s' : cstate),
      cloneV E s v = (Some v', s') /\ (vdat v' =? vdat v)%N = true) /\
  (forall (s : cstate) (k k' : key) (s' : cstate),
      cloneK E s k = (Some k', s') -> forall x : N, In x (idK E k') -> ~ In x avoid) /\
  (forall (s : cstate) (v v' : vobj) (s' : cstate),
      cloneV E s v = (Some v', s') -> forall x : N, In x (idV E v') -> ~ In x avoid).
Proof.
  cbv zeta. split; [reflexivity|].
  split; [intros s k; eexists; eexists; split; reflexivity|].
  split; [intros s v; eexists; eexists; split; [reflexivity | apply N.eqb_refl]|].
  split.
  - intros s k k' s' H x Hx Hin. cbn in H. injection H as <- _. cbn in Hx, Hin.
    destruct Hx as [<-|[]]. repeat (destruct Hin as [Hin|Hin]; [lia|]). exact Hin.
  - intros s v v' s' H x Hx Hin. cbn in H. injection H as <- _. cbn in Hx, Hin.
    destruct Hx as [<-|[]]. repeat (destruct Hin as [Hin|Hin]; [lia|]). exact Hin.
Qed.

(* and the clone of m3 made by that environment: ids 1001..1006, none of 1..6 *)
Example C15_example_fresh_run :
  match clone_from_src C15_env_fresh m3 (w_of (new_map 3)) with
  | Ok _ w' => owned C15_env_fresh (self w') = [1001; 1002; 1003; 1004; 1005; 1006]%N /\
               dropped (log w') = []
  | _ => False
  end.
Proof. vm_compute. split; reflexivity. Qed.

(* C15_clone_acct on the interpreter's own environment (honest script): the six
   objects made are those the clone owns (cf. C15_example_run); target tidy *)
Example C15_example_acct :
  flat_map (ids_pair (env_map C15_sc0)) (clone_made (env_map C15_sc0) m3 (len m3) 0 cs0)
    = [100000; 100001; 100002; 100003; 100004; 100005]%N /\
  Tidy (self (w_of (new_map 3))).
Proof.
  split; [vm_compute; reflexivity|].
  intros i _ Hn. destruct i as [|[|[|i]]]; try reflexivity. exfalso. apply Hn. destruct i; reflexivity.
Qed.

(* ========================================================================== *)
(* APPENDED SECTION — audit findings closed (Proofs/MoreEq.v)                   *)
(*                                                                            *)
(*  6. "and compares equal to it": clone composed with the crate's == (map_eq)  *)
(*     in ONE theorem:  C15_clone_compares_equal (+ _map / _set instances)      *)
(*  7. VACUITY of C15_clone_ids_fresh / C15_clone_disjoint_from_source: replaced *)
(*     by a hypothesis relative to the run at hand, which the checked system     *)
(*     satisfies for every script:  C15_clone_disjoint_run,                      *)
(*     C15_clone_fresh_env_map / _set, C15_clone_disjoint_env_map / _set         *)
(*  8. later changes to, or destruction of, either container leave the other      *)
(*     untouched:   destruction  C15_drop_map_only_own,                          *)
(*                               C15_clone_destruction_independent;              *)
(*                  changes      C15_vstep_other_register_unchanged,             *)
(*                               C15_step_other_register_unchanged,              *)
(*                               C15_run_other_register_unchanged,               *)
(*                               C15_clone_then_changes_independent (+ Set)      *)
(*  9. Set analogue of C15_clone_honest_map:  C15_clone_honest_set               *)
(* ========================================================================== *)
Require Import Proofs.ExecSafe Proofs.ExecUniq Proofs.ExecView Proofs.MoreEq.

(* -------------------------------------------------------------------------- *)
(* 6. Hypotheses: HL lawful == on keys; HV the user's V == V computes veq and
   never panics; HCK / HCV as in C15_clone_lawful; the original is well formed
   with pairwise different keys; the target is Map::new() of the same capacity.
   Conclusion: Clone returns; the clone is well formed with pairwise different
   keys; and, run from ANY world w0, `original == clone` (the model's map_eq)
   returns true, without panic or UB, leaving container and log of w0 untouched. *)
Theorem C15_clone_compares_equal :
  forall (K V Q T : Type) (E : env K V Q T) (ck : K -> N) (cq : Q -> N),
    Lawful E ck cq ->
    forall veq : V -> V -> bool,
    (forall (s : T) (a b : V), fst (eqV E s a b) = (if veq a b then Yes else No)) ->
    (forall (s : T) (k : K), exists (k' : K) (s' : T), cloneK E s k = (Some k', s') /\ ck k' = ck k) ->
    (forall (s : T) (v : V), exists (v' : V) (s' : T), cloneV E s v = (Some v', s') /\ veq v' v = true) ->
    forall (src : map K V) (w : world K V T),
      WF src -> WF (self w) -> len (self w) = 0 -> cap (self w) = cap src ->
      Uniq ck (Spec.elems src) ->
      wp (clone_from_src E src)
         (fun (_ : unit) (w' : world K V T) =>
            WF (self w') /\
            Uniq ck (Spec.elems (self w')) /\
            (forall w0 : world K V T,
                wp (map_eq E src (self w'))
                   (fun (r : bool) (w1 : world K V T) => r = true /\ stable w0 w1)
                   (fun _ : world K V T => False) w0))
         (fun _ : world K V T => False) w.
Proof. exact (@clone_compares_equal). Qed.
Print Assumptions C15_clone_compares_equal.

(* the same for the two environments of the correspondence check (honest script);
   the Set twin: Set<T,N> = Map<T,(),N> *)
Theorem C15_clone_compares_equal_map :
  forall (sc : script) (src : map key vobj) (w : world key vobj cstate),
    honest sc ->
    WF src -> WF (self w) -> len (self w) = 0 -> cap (self w) = cap src ->
    Uniq kcls (Spec.elems src) ->
    wp (clone_from_src (env_map sc) src)
       (fun (_ : unit) (w' : world key vobj cstate) =>
          WF (self w') /\
          Uniq kcls (Spec.elems (self w')) /\
          (forall w0 : world key vobj cstate,
              wp (map_eq (env_map sc) src (self w'))
                 (fun (r : bool) (w1 : world key vobj cstate) => r = true /\ stable w0 w1)
                 (fun _ : world key vobj cstate => False) w0))
       (fun _ : world key vobj cstate => False) w.
Proof. exact clone_compares_equal_map. Qed.
Print Assumptions C15_clone_compares_equal_map.

Theorem C15_clone_compares_equal_set :
  forall (sc : script) (src : map key unit) (w : world key unit cstate),
    honest sc ->
    WF src -> WF (self w) -> len (self w) = 0 -> cap (self w) = cap src ->
    Uniq kcls (Spec.elems src) ->
    wp (clone_from_src (env_set sc) src)
       (fun (_ : unit) (w' : world key unit cstate) =>
          WF (self w') /\
          Uniq kcls (Spec.elems (self w')) /\
          (forall w0 : world key unit cstate,
              wp (map_eq (env_set sc) src (self w'))
                 (fun (r : bool) (w1 : world key unit cstate) => r = true /\ stable w0 w1)
                 (fun _ : world key unit cstate => False) w0))
       (fun _ : world key unit cstate => False) w.
Proof. exact clone_compares_equal_set. Qed.
Print Assumptions C15_clone_compares_equal_set.

(* -------------------------------------------------------------------------- *)
(* 9. FmtSerde.clone_honest_map for Set: same capacity, same length, position by
   position an element of the same class, never panics *)
Theorem C15_clone_honest_set :
  forall (sc : script) (src : map key unit) (w : world key unit cstate),
    honest sc ->
    WF src -> WF (self w) -> len (self w) = 0 -> cap (self w) = cap src ->
    wp (clone_from_src (env_set sc) src)
       (fun (_ : unit) (w' : world key unit cstate) =>
          WF (self w') /\
          cap (self w') = cap src /\
          len (self w') = len src /\
          Forall2 (fun p p' : key * unit => kcls (fst p') = kcls (fst p))
                  (Spec.elems src) (Spec.elems (self w')))
       (fun _ : world key unit cstate => False) w.
Proof. exact clone_honest_set. Qed.
Print Assumptions C15_clone_honest_set.

(* -------------------------------------------------------------------------- *)
(* 7. ANY environment.  `made` is, as in C15_clone_acct, the list of identities
   the Clone callbacks of THIS run return (clone_made replays them from the
   callback state cb w) and that were written into the clone; `orphan` is one
   more object made by this run: the key K::clone returned just before the value's
   Clone panicked (clone_orphans, [] otherwise), which the unwinding destroys.
   Hypothesis: no identity of `made` is held in a slot of the original.
   Conclusion on normal return: the clone owns exactly `made`, nothing was
   destroyed, and clone and original hold NO common identity (both directions).
   If a Clone panics: the abandoned clone holds nothing, what was destroyed (d) is
   exactly made ++ orphan - so, as soon as the orphan key is new as well (the
   inner premise; it holds of env_map / env_set, see below), no identity of the
   original has been destroyed. *)
Theorem C15_clone_disjoint_run :
  forall (K V Q T : Type) (E : env K V Q T) (src : map K V) (w : world K V T),
    WF src -> WF (self w) -> len (self w) = 0 -> cap (self w) = cap src -> Tidy (self w) ->
    let made := flat_map (ids_pair E) (clone_made E src (len src) 0 (cb w)) in
    let orphan := clone_orphans E src (len src) 0 (cb w) in
    (forall x : N, In x made -> ~ In x (owned E src)) ->
    wp (clone_from_src E src)
       (fun (_ : unit) (w' : world K V T) =>
          WF (self w') /\
          Tidy (self w') /\
          Permutation (owned E (self w')) made /\
          dropped (log w') = dropped (log w) /\
          (forall x : N, In x (owned E (self w')) -> ~ In x (owned E src)) /\
          (forall x : N, In x (owned E src) -> ~ In x (owned E (self w'))))
       (fun w' : world K V T =>
          owned E (self w') = [] /\
          exists d : list N,
            dropped (log w') = dropped (log w) ++ d /\
            Permutation d (made ++ orphan) /\
            ((forall x : N, In x orphan -> ~ In x (owned E src)) ->
             forall x : N, In x d -> ~ In x (owned E src)))
       w.
Proof. exact (@clone_disjoint_run). Qed.
Print Assumptions C15_clone_disjoint_run.

(* The run-relative hypothesis HOLDS of the interpreter's own environments, for
   EVERY script (honest, adversarial ==, injected Clone/Drop panics): Clone takes
   its new identities from the counter next_id of the callback state, so it is
   enough that the counter is above every identity the original holds (the
   harness starts the counter at 100000, above every identity a test case
   mentions, and only ever increments it). *)
Theorem C15_clone_fresh_env_map :
  forall (sc : script) (src : map key vobj) (s : cstate),
    (forall x : N, In x (owned (env_map sc) src) -> (x < next_id s)%N) ->
    forall x : N,
      In x (flat_map (ids_pair (env_map sc)) (clone_made (env_map sc) src (len src) 0 s)) ->
      ~ In x (owned (env_map sc) src).
Proof. exact clone_fresh_env_map. Qed.
Print Assumptions C15_clone_fresh_env_map.

Theorem C15_clone_fresh_env_set :
  forall (sc : script) (src : map key unit) (s : cstate),
    (forall x : N, In x (owned (env_set sc) src) -> (x < next_id s)%N) ->
    forall x : N,
      In x (flat_map (ids_pair (env_set sc)) (clone_made (env_set sc) src (len src) 0 s)) ->
      ~ In x (owned (env_set sc) src).
Proof. exact clone_fresh_env_set. Qed.
Print Assumptions C15_clone_fresh_env_set.

(* ... hence, on the checked system: clone and original share no identity, and a
   Clone panic destroys nothing of the original (the orphan key, too, carries an
   identity taken from the counter: MoreEq.clone_orphans_map_ge; a Set has no
   value Clone that could panic: clone_orphans_set_nil) and leaves nothing in the
   abandoned clone.  EVERY script. *)
Theorem C15_clone_disjoint_env_map :
  forall (sc : script) (src : map key vobj) (w : world key vobj cstate),
    WF src -> WF (self w) -> len (self w) = 0 -> cap (self w) = cap src -> Tidy (self w) ->
    (forall x : N, In x (owned (env_map sc) src) -> (x < next_id (cb w))%N) ->
    wp (clone_from_src (env_map sc) src)
       (fun (_ : unit) (w' : world key vobj cstate) =>
          (forall x : N, In x (owned (env_map sc) (self w')) -> ~ In x (owned (env_map sc) src)) /\
          (forall x : N, In x (owned (env_map sc) src) -> ~ In x (owned (env_map sc) (self w'))) /\
          dropped (log w') = dropped (log w))
       (fun w' : world key vobj cstate =>
          owned (env_map sc) (self w') = [] /\
          exists d : list N,
            dropped (log w') = dropped (log w) ++ d /\
            (forall x : N, In x d -> ~ In x (owned (env_map sc) src)))
       w.
Proof. exact clone_disjoint_env_map. Qed.
Print Assumptions C15_clone_disjoint_env_map.

Theorem C15_clone_disjoint_env_set :
  forall (sc : script) (src : map key unit) (w : world key unit cstate),
    WF src -> WF (self w) -> len (self w) = 0 -> cap (self w) = cap src -> Tidy (self w) ->
    (forall x : N, In x (owned (env_set sc) src) -> (x < next_id (cb w))%N) ->
    wp (clone_from_src (env_set sc) src)
       (fun (_ : unit) (w' : world key unit cstate) =>
          (forall x : N, In x (owned (env_set sc) (self w')) -> ~ In x (owned (env_set sc) src)) /\
          (forall x : N, In x (owned (env_set sc) src) -> ~ In x (owned (env_set sc) (self w'))) /\
          dropped (log w') = dropped (log w))
       (fun w' : world key unit cstate =>
          owned (env_set sc) (self w') = [] /\
          exists d : list N,
            dropped (log w') = dropped (log w) ++ d /\
            (forall x : N, In x d -> ~ In x (owned (env_set sc) src)))
       w.
Proof. exact clone_disjoint_env_set. Qed.
Print Assumptions C15_clone_disjoint_env_set.

(* the hypotheses of C15_clone_disjoint_env_map on m3 (identities 1..6) with the
   interpreter's initial callback state (counter 100000) - for a script that
   makes the 2nd Clone call panic as well as for the honest one *)
Example C15_example_counter_above :
  owned (env_map C15_sc0) m3 = [1; 2; 3; 4; 5; 6]%N /\
  owned (env_map (sc_clone 2)) m3 = [1; 2; 3; 4; 5; 6]%N /\
  next_id (cb (w_of (new_map 3))) = 100000%N /\
  (forall x : N, In x (owned (env_map C15_sc0) m3) -> (x < next_id (cb (w_of (new_map 3))))%N) /\
  (forall x : N, In x (owned (env_map (sc_clone 2)) m3) -> (x < next_id (cb (w_of (new_map 3))))%N).
Proof.
  split; [reflexivity|]. split; [reflexivity|]. split; [reflexivity|].
  split; intros x Hx; vm_compute in Hx; change (next_id (cb (w_of (new_map 3)))) with 100000%N;
    repeat (destruct Hx as [<-|Hx]; [lia|]); destruct Hx.
Qed.

(* the Clone of the 2nd VALUE panics (clone call number 3): one pair had been
   written (100000, 100001), the 2nd key had been cloned (the orphan 100002);
   all three - and nothing else, none of 1..6 - are destroyed, the orphan first;
   the abandoned clone holds nothing *)
Example C15_example_orphan :
  clone_orphans (env_map (sc_clone 3)) m3 (len m3) 0 cs0 = [100002]%N /\
  flat_map (ids_pair (env_map (sc_clone 3))) (clone_made (env_map (sc_clone 3)) m3 (len m3) 0 cs0)
    = [100000; 100001]%N /\
  match clone_from_src (env_map (sc_clone 3)) m3 (w_of (new_map 3)) with
  | Panic w' => dropped (log w') = [100002; 100000; 100001]%N /\ owned (env_map (sc_clone 3)) (self w') = []
  | _ => False
  end.
Proof. split; [vm_compute; reflexivity|]. split; vm_compute; [reflexivity | split; reflexivity]. Qed.

(* -------------------------------------------------------------------------- *)
(* 8a. Destruction.  ANY environment (Drop may panic: both outcomes).  Running
   Drop for Map on the container in [self w] destroys (d = the identities the log
   grows by) only identities that container holds; so if it shares none with
   `other`, nothing of `other` is destroyed. *)
Theorem C15_drop_map_only_own :
  forall (K V Q T : Type) (E : env K V Q T) (other : map K V) (w : world K V T),
    WF (self w) ->
    (forall x : N, In x (owned E (self w)) -> ~ In x (owned E other)) ->
    let post :=
      fun w' : world K V T =>
        exists d : list N,
          dropped (log w') = dropped (log w) ++ d /\
          (forall x : N, In x d -> In x (owned E (self w))) /\
          (forall x : N, In x d -> ~ In x (owned E other)) in
    wp (drop_map E) (fun _ : unit => post) post w.
Proof. exact (@drop_map_only_own). Qed.
Print Assumptions C15_drop_map_only_own.

(* Composition with 7: after a Clone that returned (w'), destroy EITHER copy, in
   any later world w2 holding it: every identity destroyed belongs to the copy
   being destroyed and is NOT held by the other copy - "destruction of either
   container leaves the other untouched".  ANY environment, under the
   run-relative hypothesis (which env_map / env_set satisfy, see above). *)
Theorem C15_clone_destruction_independent :
  forall (K V Q T : Type) (E : env K V Q T) (src : map K V) (w : world K V T),
    WF src -> WF (self w) -> len (self w) = 0 -> cap (self w) = cap src -> Tidy (self w) ->
    (forall x : N,
        In x (flat_map (ids_pair E) (clone_made E src (len src) 0 (cb w))) -> ~ In x (owned E src)) ->
    wp (clone_from_src E src)
       (fun (_ : unit) (w' : world K V T) =>
          (forall w2 : world K V T,
              self w2 = self w' ->
              wp (drop_map E)
                 (fun (_ : unit) (w3 : world K V T) =>
                    exists d : list N,
                      dropped (log w3) = dropped (log w2) ++ d /\
                      (forall x : N, In x d -> In x (owned E (self w')) /\ ~ In x (owned E src)))
                 (fun w3 : world K V T =>
                    exists d : list N,
                      dropped (log w3) = dropped (log w2) ++ d /\
                      (forall x : N, In x d -> In x (owned E (self w')) /\ ~ In x (owned E src))) w2) /\
          (forall w2 : world K V T,
              self w2 = src ->
              wp (drop_map E)
                 (fun (_ : unit) (w3 : world K V T) =>
                    exists d : list N,
                      dropped (log w3) = dropped (log w2) ++ d /\
                      (forall x : N, In x d -> In x (owned E src) /\ ~ In x (owned E (self w'))))
                 (fun w3 : world K V T =>
                    exists d : list N,
                      dropped (log w3) = dropped (log w2) ++ d /\
                      (forall x : N, In x d -> In x (owned E src) /\ ~ In x (owned E (self w')))) w2))
       (fun _ : world K V T => True) w.
Proof. exact (@clone_destruction_independent). Qed.
Print Assumptions C15_clone_destruction_independent.

(* clone m3, then destroy the clone: exactly the six new objects die, none of
   1..6; destroy the original instead: exactly 1..6 die, none of the clone's *)
Example C15_example_destroy :
  match clone_from_src (env_map C15_sc0) m3 (w_of (new_map 3)) with
  | Ok _ w' =>
      match drop_map (env_map C15_sc0) w', drop_map (env_map C15_sc0) {| cb := cb w'; log := log w'; self := m3 |} with
      | Ok _ w3, Ok _ w4 =>
          dropped (log w3) = [100000; 100001; 100002; 100003; 100004; 100005]%N /\
          dropped (log w4) = [1; 2; 3; 4; 5; 6]%N
      | _, _ => False
      end
  | _ => False
  end.
Proof. vm_compute. split; reflexivity. Qed.

(* -------------------------------------------------------------------------- *)
(* 8b. Changes.  In the model containers are VALUES: an operation runs on the
   container in [self] and cannot reach any other container - that is
   structural, not a theorem.  The contentful statement is about the
   interpreter, which keeps the original and the clone in two REGISTERS and
   writes an operation's result back:
     m_target o / s_target o   the map / set register operation o writes back
                               to (Some r), if any: its own register for the 51
                               single-register operations and == ; the
                               DESTINATION r' for OClone / OCloneFrom / OSerde
                               (and the Set twins);
     same_m t r  (same_s t r)  the numbers t and r name the same map (set)
                               register (get_m / get_s decode by comparing with
                               0 / 2);
     not_m_target o r          r is not the map register o writes (in
                               particular: o is a Set operation); same for sets.
   (i) C15_vstep_other_register_unchanged: a pure fact about the specification
       ExecView.vstep (which ExecView.step_view shows the interpreter follows
       under an honest script): vstep o changes the contents of no register but
       the target.
   (ii) C15_step_other_register_unchanged: the interpreter itself, for EVERY
       script, every state, both debug values, whatever the outcome (returned,
       panicked, UB): every register other than the target holds afterwards
       LITERALLY the same container (same objects, same slots).
   (iii) C15_run_other_register_unchanged: the same for whole histories.
   (iv) C15_clone_then_changes_independent: clone register r into r'; then ANY
       history of operations on the clone leaves the original exactly as it
       was, any history on the original leaves the clone exactly as it was made,
       and the Clone itself left the original as it was. *)
Theorem C15_vstep_other_register_unchanged :
  forall (o : op) (vw : vworld) (r : N),
    (not_m_target o r -> get_mv r (vstep o vw) = get_mv r vw) /\
    (not_s_target o r -> get_sv r (vstep o vw) = get_sv r vw).
Proof. exact vstep_other_register_unchanged. Qed.
Print Assumptions C15_vstep_other_register_unchanged.

Theorem C15_step_other_register_unchanged :
  forall (debug : bool) (sc : script) (o : op) (x : xworld) (r : N),
    (not_m_target o r -> get_m r (snd (step debug sc o x)) = get_m r x) /\
    (not_s_target o r -> get_s r (snd (step debug sc o x)) = get_s r x).
Proof. exact step_other_register_unchanged. Qed.
Print Assumptions C15_step_other_register_unchanged.

Theorem C15_run_other_register_unchanged :
  forall (debug : bool) (sc : script) (ops : list op) (x : xworld) (r : N),
    (Forall (fun o : op => not_m_target o r) ops -> get_m r (run_final debug sc ops x) = get_m r x) /\
    (Forall (fun o : op => not_s_target o r) ops -> get_s r (run_final debug sc ops x) = get_s r x).
Proof. exact run_other_register_unchanged. Qed.
Print Assumptions C15_run_other_register_unchanged.

Theorem C15_clone_then_changes_independent :
  forall (debug : bool) (sc : script) (r r' : N) (ops : list op) (x : xworld),
    let x1 := snd (step debug sc (OClone r r') x) in
    (Forall (fun o : op => not_m_target o r') ops -> get_m r' (run_final debug sc ops x1) = get_m r' x1) /\
    (Forall (fun o : op => not_m_target o r) ops -> get_m r (run_final debug sc ops x1) = get_m r x1) /\
    (~ same_m r' r -> get_m r x1 = get_m r x).
Proof. exact clone_then_changes_independent. Qed.
Print Assumptions C15_clone_then_changes_independent.

Theorem C15_sclone_then_changes_independent :
  forall (debug : bool) (sc : script) (r r' : N) (ops : list op) (x : xworld),
    let x1 := snd (step debug sc (SClone r r') x) in
    (Forall (fun o : op => not_s_target o r') ops -> get_s r' (run_final debug sc ops x1) = get_s r' x1) /\
    (Forall (fun o : op => not_s_target o r) ops -> get_s r (run_final debug sc ops x1) = get_s r x1) /\
    (~ same_s r' r -> get_s r x1 = get_s r x).
Proof. exact sclone_then_changes_independent. Qed.
Print Assumptions C15_sclone_then_changes_independent.

(* the hypotheses are satisfiable and the statement has content: clone register 0
   (holding m3) into register 1, then clear / insert into / drain the CLONE and
   finally destroy it (ODefault replaces it by a fresh map): register 0 still
   holds m3 itself; and mutating the ORIGINAL leaves the clone as made *)
Example C15_example_changes :
  let x := {| xcb := cs0; xm0 := m3; xm1 := new_map 3; xs0 := new_map 0; xs1 := new_map 0; xdead := false |} in
  let x1 := snd (step false C15_sc0 (OClone 0 1) x) in
  let on_clone := [OInsert 1 (k_ 21 5) (v_ 22 0); ORemove 1 (QCls 6); OClear 1; ODefault 1] in
  let on_orig := [OInsert 0 (k_ 21 5) (v_ 22 0); ORemove 0 (QCls 6); OClear 0] in
  ~ same_m 1 0 /\
  Forall (fun o : op => not_m_target o 0) on_clone /\
  Forall (fun o : op => not_m_target o 1) on_orig /\
  get_m 0 x1 = m3 /\
  get_m 1 x1 = {| len := 3;
                  slots := [Some (k_ 100000 5, v_ 100001 7); Some (k_ 100002 6, v_ 100003 8);
                            Some (k_ 100004 7, v_ 100005 9)] |} /\
  get_m 0 (run_final false C15_sc0 on_clone x1) = m3 /\
  get_m 1 (run_final false C15_sc0 on_clone x1) = new_map 3 /\
  get_m 1 (run_final false C15_sc0 on_orig x1) = get_m 1 x1 /\
  get_m 0 (run_final false C15_sc0 on_orig x1) = new_map 3.
Proof.
  cbv zeta. split; [intros H; discriminate H|].
  split; [repeat constructor; intros H; discriminate H|].
  split; [repeat constructor; intros H; discriminate H|].
  split; [vm_compute; reflexivity|]. split; [vm_compute; reflexivity|].
  split; [vm_compute; reflexivity|]. split; [vm_compute; reflexivity|].
  split; vm_compute; reflexivity.
Qed.

(* ========================================================================== *)
(* ROUND 2 — second audit (Proofs/MoreEq.v, Parts F and H)                      *)
(*  1. the counter premise of C15_clone_disjoint_env_map is an INVARIANT of       *)
(*     interpreter runs, for every script and all 56 operations:                  *)
(*       C15_below_unfold, C15_init_below, C15_step_below, C15_run_below,         *)
(*       C15_run_below_init; clone independence in every such state:              *)
(*       C15_step_OClone_disjoint (+ OCloneFrom, SClone, SCloneFrom),             *)
(*       C15_step_OClone_returned_disjoint, C15_reachable_OClone_disjoint,        *)
(*       C15_reachable_SClone_disjoint                                            *)
(*  2. later CHANGES composed with identity-disjointness (not merely structural): *)
(*       C15_history_foreign_untouched, C15_clone_then_history_independent        *)
(*  3. C15_clone_honest_map dropped the log clause:                               *)
(*       C15_clone_honest_map_full, C15_clone_honest_set_full                     *)
(* ========================================================================== *)
Require Import Proofs.Dict Proofs.MoreOwned.

(* -------------------------------------------------------------------------- *)
(* 3. clone_lawful at the two environments of the correspondence check WITH its
   log clause: the log grows by exactly [EvCloneK (id of key_i); EvCloneV (id of
   value_i)] (Set: [EvCloneK (id of element_i)]) for i = 0..len-1 in slot order -
   "produced by cloning each stored key and each stored value exactly once" *)
Theorem C15_clone_honest_map_full :
  forall (sc : script) (src : map key vobj) (w : world key vobj cstate),
    honest sc ->
    WF src -> WF (self w) -> len (self w) = 0 -> cap (self w) = cap src ->
    wp (clone_from_src (env_map sc) src)
       (fun (_ : unit) (w' : world key vobj cstate) =>
          WF (self w') /\
          cap (self w') = cap src /\
          len (self w') = len src /\
          Forall2 (fun p p' : key * vobj =>
                     kcls (fst p') = kcls (fst p) /\ (vdat (snd p') =? vdat (snd p))%N = true)
                  (Spec.elems src) (Spec.elems (self w')) /\
          logged w w'
            (flat_map (fun p : key * vobj => [EvCloneK (kid (fst p)); EvCloneV (vid (snd p))])
                      (Spec.elems src)))
       (fun _ : world key vobj cstate => False) w.
Proof. exact clone_honest_map_full. Qed.
Print Assumptions C15_clone_honest_map_full.

Theorem C15_clone_honest_set_full :
  forall (sc : script) (src : map key unit) (w : world key unit cstate),
    honest sc ->
    WF src -> WF (self w) -> len (self w) = 0 -> cap (self w) = cap src ->
    wp (clone_from_src (env_set sc) src)
       (fun (_ : unit) (w' : world key unit cstate) =>
          WF (self w') /\
          cap (self w') = cap src /\
          len (self w') = len src /\
          Forall2 (fun p p' : key * unit => kcls (fst p') = kcls (fst p))
                  (Spec.elems src) (Spec.elems (self w')) /\
          logged w w' (flat_map (fun p : key * unit => [EvCloneK (kid (fst p))]) (Spec.elems src)))
       (fun _ : world key unit cstate => False) w.
Proof. exact clone_honest_set_full. Qed.
Print Assumptions C15_clone_honest_set_full.

(* -------------------------------------------------------------------------- *)
(* 1. The invariant.
     mids m / sids m   the identities held in any slot of a Map / Set register
                       (= owned (env_map sc) m / owned (env_set sc) m for every
                       script sc: identities are the kid / vid fields);
     allx x            those of all four registers of an interpreter state;
     below x           every one of them is smaller than the counter next_id of the
                       callback state, from which Clone / Default / the decoders
                       take new identities;
     Exec.op_ids o     the identities operation o hands in (what the harness's
                       test case mentions).
   C15_step_below: for EVERY script (lying ==, injected panics in ==, Clone, Drop,
   closures), every state - no well-formedness and no contract needed: an undefined
   step changes neither registers nor counter - and each of the 56 operations: if
   [below] holds and the handed-in identities are below the counter, [below] holds
   afterwards and the counter has not decreased.  (Proved by a small program logic
   over the model's monad, MoreEq.NB: every library function and every interpreter
   session keeps "stored, free and returned identities are below the counter".)
   C15_run_below / _init: hence after any history; from init_world (counter 100000)
   it suffices that the test case mentions identities below 100000. *)
Theorem C15_below_unfold :
  forall (sc : script) (x : xworld),
    below x <->
    (forall id : N,
        In id (owned (env_map sc) (xm0 x) ++ owned (env_map sc) (xm1 x) ++
               owned (env_set sc) (xs0 x) ++ owned (env_set sc) (xs1 x)) ->
        (id < next_id (xcb x))%N).
Proof. exact (fun sc x => iff_refl (below x)). Qed.
Print Assumptions C15_below_unfold.

Theorem C15_init_below : forall c0 c1 c2 c3 : N, below (init_world c0 c1 c2 c3).
Proof. exact init_below. Qed.
Print Assumptions C15_init_below.

Theorem C15_step_below :
  forall (debug : bool) (sc : script) (o : op) (x : xworld),
    below x ->
    (forall id : N, In id (op_ids o) -> (id < next_id (xcb x))%N) ->
    below (snd (step debug sc o x)) /\
    (next_id (xcb x) <= next_id (xcb (snd (step debug sc o x))))%N.
Proof. exact step_below. Qed.
Print Assumptions C15_step_below.

Theorem C15_run_below :
  forall (debug : bool) (sc : script) (ops : list op) (x : xworld),
    below x ->
    (forall (o : op) (id : N), In o ops -> In id (op_ids o) -> (id < next_id (xcb x))%N) ->
    below (run_final debug sc ops x) /\
    (next_id (xcb x) <= next_id (xcb (run_final debug sc ops x)))%N.
Proof. exact run_below. Qed.
Print Assumptions C15_run_below.

Theorem C15_run_below_init :
  forall (debug : bool) (sc : script) (ops : list op) (c0 c1 c2 c3 : N),
    (forall (o : op) (id : N), In o ops -> In id (op_ids o) -> (id < 100000)%N) ->
    below (run_final debug sc ops (init_world c0 c1 c2 c3)).
Proof. exact run_below_init. Qed.
Print Assumptions C15_run_below_init.

(* Clone in a state satisfying [below] (well formed: C02/C04), EVERY script, the
   two registers different: the original register holds afterwards literally what
   it held; the destination EITHER holds literally what it held (the capacities
   differ and the interpreter does not make the call; or a Clone panicked: the
   partial clone has been destroyed and the destination was not replaced) OR shares
   NO identity with the original.  Same for clone_from and for Sets. *)
Theorem C15_step_OClone_disjoint :
  forall (debug : bool) (sc : script) (r r' : N) (x : xworld),
    below x -> WFx x -> ~ same_m r' r ->
    let x1 := snd (step debug sc (OClone r r') x) in
    get_m r x1 = get_m r x /\
    (get_m r' x1 = get_m r' x \/
     (forall id : N, In id (mids (get_m r' x1)) -> ~ In id (mids (get_m r x1)))).
Proof. exact step_OClone_disjoint. Qed.
Print Assumptions C15_step_OClone_disjoint.

Theorem C15_step_OCloneFrom_disjoint :
  forall (debug : bool) (sc : script) (r r' : N) (x : xworld),
    below x -> WFx x -> ~ same_m r' r ->
    let x1 := snd (step debug sc (OCloneFrom r r') x) in
    get_m r x1 = get_m r x /\
    (get_m r' x1 = get_m r' x \/
     (forall id : N, In id (mids (get_m r' x1)) -> ~ In id (mids (get_m r x1)))).
Proof. exact step_OCloneFrom_disjoint. Qed.
Print Assumptions C15_step_OCloneFrom_disjoint.

Theorem C15_step_SClone_disjoint :
  forall (debug : bool) (sc : script) (r r' : N) (x : xworld),
    below x -> WFx x -> ~ same_s r' r ->
    let x1 := snd (step debug sc (SClone r r') x) in
    get_s r x1 = get_s r x /\
    (get_s r' x1 = get_s r' x \/
     (forall id : N, In id (sids (get_s r' x1)) -> ~ In id (sids (get_s r x1)))).
Proof. exact step_SClone_disjoint. Qed.
Print Assumptions C15_step_SClone_disjoint.

Theorem C15_step_SCloneFrom_disjoint :
  forall (debug : bool) (sc : script) (r r' : N) (x : xworld),
    below x -> WFx x -> ~ same_s r' r ->
    let x1 := snd (step debug sc (SCloneFrom r r') x) in
    get_s r x1 = get_s r x /\
    (get_s r' x1 = get_s r' x \/
     (forall id : N, In id (sids (get_s r' x1)) -> ~ In id (sids (get_s r x1)))).
Proof. exact step_SCloneFrom_disjoint. Qed.
Print Assumptions C15_step_SCloneFrom_disjoint.

(* when the call RETURNED (the observation starts with token 1) the destination
   holds the complete clone: no identity in common with the original *)
Theorem C15_step_OClone_returned_disjoint :
  forall (debug : bool) (sc : script) (r r' : N) (x : xworld) (t : list N),
    below x -> WFx x -> ~ same_m r' r ->
    fst (step debug sc (OClone r r') x) = 1%N :: t ->
    let x1 := snd (step debug sc (OClone r r') x) in
    forall id : N, In id (mids (get_m r' x1)) -> ~ In id (mids (get_m r x1)).
Proof. exact step_OClone_returned_disjoint. Qed.
Print Assumptions C15_step_OClone_returned_disjoint.

(* the two composed: from the interpreter's initial state, after ANY history of
   operations other than insert_unchecked (ExecSafe.safe_op; any script) that hands
   in identities below 100000 *)
Theorem C15_reachable_OClone_disjoint :
  forall (debug : bool) (sc : script) (ops : list op) (c0 c1 c2 c3 r r' : N),
    Forall safe_op ops ->
    (forall (o : op) (id : N), In o ops -> In id (op_ids o) -> (id < 100000)%N) ->
    ~ same_m r' r ->
    let x := run_final debug sc ops (init_world c0 c1 c2 c3) in
    let x1 := snd (step debug sc (OClone r r') x) in
    get_m r x1 = get_m r x /\
    (get_m r' x1 = get_m r' x \/
     (forall id : N, In id (mids (get_m r' x1)) -> ~ In id (mids (get_m r x1)))).
Proof. exact reachable_OClone_disjoint. Qed.
Print Assumptions C15_reachable_OClone_disjoint.

Theorem C15_reachable_SClone_disjoint :
  forall (debug : bool) (sc : script) (ops : list op) (c0 c1 c2 c3 r r' : N),
    Forall safe_op ops ->
    (forall (o : op) (id : N), In o ops -> In id (op_ids o) -> (id < 100000)%N) ->
    ~ same_s r' r ->
    let x := run_final debug sc ops (init_world c0 c1 c2 c3) in
    let x1 := snd (step debug sc (SClone r r') x) in
    get_s r x1 = get_s r x /\
    (get_s r' x1 = get_s r' x \/
     (forall id : N, In id (sids (get_s r' x1)) -> ~ In id (sids (get_s r x1)))).
Proof. exact reachable_SClone_disjoint. Qed.
Print Assumptions C15_reachable_SClone_disjoint.

(* a history under an ADVERSARIAL script (== lies: the final remove of class 5 is
   told that nothing matches; or_default created the fresh value 100000) satisfying
   the hypotheses, and what the clone then looks like: registers 0 and 1 have no
   identity in common *)
Example C15_example_reachable :
  let sc := {| sc_adv := true; sc_seed := 6; sc_fk := 0; sc_fa := 0 |} in
  let ops := [OInsert 0 (mk 1 5) (mv 2 7); OInsert 0 (mk 3 6) (mv 4 8); OEntry 0 (mk 5 7) 3 (mv 6 0);
              ORemove 0 (QCls 5)] in
  Forall safe_op ops /\
  (forall (o : op) (id : N), In o ops -> In id (op_ids o) -> (id < 100000)%N) /\
  ~ same_m 1 0 /\
  let x := run_final false sc ops (init_world 3 3 0 0) in
  let x1 := snd (step false sc (OClone 0 1) x) in
  mids (get_m 0 x1) = [1; 2; 3; 4; 5; 100000]%N /\
  mids (get_m 1 x1) = [100001; 100002; 100003; 100004; 100005; 100006]%N.
Proof.
  cbv zeta. split; [repeat constructor|]. split.
  - intros o id Ho Hid. repeat (destruct Ho as [<-|Ho]; [cbn in Hid; repeat (destruct Hid as [<-|Hid]; [lia|]); destruct Hid|]).
    destruct Ho.
  - split; [intros H; discriminate H|]. split; vm_compute; reflexivity.
Qed.

(* -------------------------------------------------------------------------- *)
(* 2. Later CHANGES, with content.  ANY environment.
     MoreOwned.op_ins E o   the identities a dictionary operation hands in;
     MoreOwned.op_ok E o    True except for retain, whose closure must not change
                            which object a value is;
     MoreOwned.mouts        the identities the history handed back to the caller.
   C15_history_foreign_untouched: a history of dictionary operations run on a
   container cannot store, hand out or DESTROY an identity that the container did
   not hold, that no operation handed in and that was alive (not in the drop log).
   C15_clone_then_history_independent: under the run-relative hypothesis of
   C15_clone_disjoint_run (which env_map / env_set satisfy in every reachable
   state, item 1), after a Clone that returned: ANY later history on the CLONE,
   from any later world holding it in which the original's objects are alive and
   which hands in none of them, leaves every object of the ORIGINAL out of the
   clone, out of the caller's hands and NOT DESTROYED; and symmetrically for a
   history on the original and the objects of the clone.  This would be FALSE if
   Clone shared objects between the copies (a later remove / clear / overwrite on
   one copy would destroy an object of the other). *)
Theorem C15_history_foreign_untouched :
  forall (K V Q T : Type) (E : env K V Q T) (debug : bool) (foreign : list N)
         (ops : list (@dop K V Q)) (w : world K V T),
    WF (self w) ->
    Forall (op_ok E) ops ->
    (forall x : N,
        In x foreign ->
        ~ In x (owned E (self w)) /\ ~ In x (flat_map (op_ins E) ops) /\ ~ In x (dropped (log w))) ->
    exists wf : world K V T,
      mfinal E debug ops w = Some wf /\
      WF (self wf) /\
      (forall x : N,
          In x foreign ->
          ~ In x (owned E (self wf)) /\ ~ In x (mouts E debug ops w) /\ ~ In x (dropped (log wf))).
Proof. exact (@history_foreign_untouched). Qed.
Print Assumptions C15_history_foreign_untouched.

Theorem C15_clone_then_history_independent :
  forall (K V Q T : Type) (E : env K V Q T) (debug : bool) (src : map K V) (w : world K V T),
    WF src -> WF (self w) -> len (self w) = 0 -> cap (self w) = cap src -> Tidy (self w) ->
    (forall x : N,
        In x (flat_map (ids_pair E) (clone_made E src (len src) 0 (cb w))) -> ~ In x (owned E src)) ->
    wp (clone_from_src E src)
       (fun (_ : unit) (w' : world K V T) =>
          (forall (ops : list (@dop K V Q)) (w2 : world K V T),
              self w2 = self w' ->
              Forall (op_ok E) ops ->
              (forall x : N,
                  In x (owned E src) -> ~ In x (flat_map (op_ins E) ops) /\ ~ In x (dropped (log w2))) ->
              exists wf : world K V T,
                mfinal E debug ops w2 = Some wf /\
                (forall x : N,
                    In x (owned E src) ->
                    ~ In x (owned E (self wf)) /\ ~ In x (mouts E debug ops w2) /\ ~ In x (dropped (log wf)))) /\
          (forall (ops : list (@dop K V Q)) (w2 : world K V T),
              self w2 = src ->
              Forall (op_ok E) ops ->
              (forall x : N,
                  In x (owned E (self w')) -> ~ In x (flat_map (op_ins E) ops) /\ ~ In x (dropped (log w2))) ->
              exists wf : world K V T,
                mfinal E debug ops w2 = Some wf /\
                (forall x : N,
                    In x (owned E (self w')) ->
                    ~ In x (owned E (self wf)) /\ ~ In x (mouts E debug ops w2) /\ ~ In x (dropped (log wf)))))
       (fun _ : world K V T => True) w.
Proof. exact (@clone_then_history_independent). Qed.
Print Assumptions C15_clone_then_history_independent.

(* clone m3, then on the CLONE: overwrite a value, remove an entry, clear - all
   six objects of the clone end up destroyed or handed out, none of the original's
   1..6 (the hypotheses on the history: its arguments 21, 22 are none of 1..6) *)
Example C15_example_history_on_clone :
  let E := env_map C15_sc0 in
  let ops : list (@dop key vobj query) := [DInsert (k_ 21 5) (v_ 22 0); DRemove (QCls 6); DClear] in
  Forall (op_ok E) ops /\
  flat_map (op_ins E) ops = [21; 22]%N /\
  match clone_from_src E m3 (w_of (new_map 3)) with
  | Ok _ w' =>
      match mfinal E false ops w' with
      | Some wf => dropped (log wf) = [21; 100002; 100000; 22; 100004; 100005]%N /\
                   mouts E false ops w' = [100001; 100003]%N /\ owned E (self wf) = []
      | None => False
      end
  | _ => False
  end.
Proof. cbv zeta. split; [repeat constructor|]. split; [reflexivity|]. vm_compute. repeat split; reflexivity. Qed.
