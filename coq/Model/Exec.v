(* Exec.v — concrete instantiation of the model (instrumented keys/values,
   scripted environment) and the history interpreter used by the
   correspondence check.  Every token format here is mirrored in
   harness/src/main.rs.  DEFINITIONS ONLY. *)
Require Import Model.Base Model.Slots Model.MapOps Model.EntryOps Model.SetOps Model.Fmt.

(* ---------- instrumented element types ---------- *)
Record key := { kid : N; kcls : N }.
Record vobj := { vid : N; vdat : N }.
Inductive query := QCls (c : N) | QKey (k : key).
Definition qcls (q : query) : N := match q with QCls c => c | QKey k => kcls k end.

(* ---------- callback state and script ---------- *)
Record cstate := { n_eq : N; n_clone : N; n_call : N; next_id : N }.
Record script := { sc_adv : bool; sc_seed : N; sc_fk : N; sc_fa : N }.
(* fault kinds: 0 none | 1 eq number fa | 2 clone number fa | 3 drop of object fa | 4 closure/next call number fa *)

Definition m64 : N := 18446744073709551616.
Definition mix (seed n : N) : N :=
  let z := N.modulo (seed + (n + 1) * 11400714819323198485) m64 in
  let z := N.modulo (N.lxor z (N.shiftr z 30) * 13787848793156543929) m64 in
  let z := N.modulo (N.lxor z (N.shiftr z 27) * 10723151780598845931) m64 in
  N.lxor z (N.shiftr z 31).

(* a misbehaving ==: the seed selects the kind of misbehaviour *)
Definition adv_answer (seed n : N) (truth : bool) : bool :=
  match N.modulo seed 5 with
  | 4%N => if N.eqb (N.modulo (mix seed n) 4) 0 then negb truth else truth   (* lies now and then *)
  | 0%N => true                                   (* everything equals everything *)
  | 1%N => false                                  (* nothing equals anything, not even itself *)
  | 2%N => if N.even n then truth else negb truth (* changes between two calls on the same operands *)
  | _ => truth                                    (* determined by the OPERANDS, but asymmetric: see cls_truth *)
  end.

(* the fifth kind of misbehaving == (seed mod 5 = 3): "a == b" iff class a <= class b -- reflexive, transitive, NOT
   symmetric; what a call answers then depends on which operand stands on which side, so the ORDER OF THE OPERANDS in
   every comparison the crate makes becomes observable *)
Definition asym (sc : script) : bool := sc_adv sc && N.eqb (N.modulo (sc_seed sc) 5) 3.
Definition cls_truth (sc : script) (a b : N) : bool := if asym sc then N.leb a b else N.eqb a b.

Definition eq_answer (sc : script) (s : cstate) (truth : bool) : ans * cstate :=
  let n := n_eq s in
  let s' := {| n_eq := n + 1; n_clone := n_clone s; n_call := n_call s; next_id := next_id s |} in
  if N.eqb (sc_fk sc) 1 && N.eqb (sc_fa sc) n then (Boom, s')
  else
    let t := if sc_adv sc then adv_answer (sc_seed sc) n truth else truth in
    ((if t then Yes else No), s').

Definition clone_tick (sc : script) (s : cstate) : option N * cstate :=
  let n := n_clone s in
  if N.eqb (sc_fk sc) 2 && N.eqb (sc_fa sc) n then
    (None, {| n_eq := n_eq s; n_clone := n + 1; n_call := n_call s; next_id := next_id s |})
  else
    (Some (next_id s),
     {| n_eq := n_eq s; n_clone := n + 1; n_call := n_call s; next_id := next_id s + 1 |}).

(* a user closure / source next() / Default::default(): true = panics *)
Definition call_tick (sc : script) (s : cstate) : bool * cstate :=
  let n := n_call s in
  (N.eqb (sc_fk sc) 4 && N.eqb (sc_fa sc) n,
   {| n_eq := n_eq s; n_clone := n_clone s; n_call := n + 1; next_id := next_id s |}).

Definition drop_boom (sc : script) (id : N) : bool := N.eqb (sc_fk sc) 3 && N.eqb (sc_fa sc) id.

Definition clone_key_cb (sc : script) (s : cstate) (k : key) : option key * cstate :=
  let '(o, s') := clone_tick sc s in
  (option_map (fun i => {| kid := i; kcls := kcls k |}) o, s').

Definition env_map (sc : script) : env key vobj query cstate := {|
  eqK := fun s a b => eq_answer sc s (cls_truth sc (kcls a) (kcls b));
  eqKQ := fun s a q => eq_answer sc s (cls_truth sc (kcls a) (qcls q));
  eqQQ := fun s q q' => eq_answer sc s (cls_truth sc (qcls q) (qcls q'));
  eqQK := fun s q a => eq_answer sc s (cls_truth sc (qcls q) (kcls a));
  eqV := fun s a b => eq_answer sc s (N.eqb (vdat a) (vdat b));
  cloneK := clone_key_cb sc;
  cloneV := fun s v => let '(o, s') := clone_tick sc s in
                       (option_map (fun i => {| vid := i; vdat := vdat v |}) o, s');
  dropK := fun s k => (drop_boom sc (kid k), s);
  dropV := fun s v => (drop_boom sc (vid v), s);
  idK := fun k => [kid k];
  idV := fun v => [vid v]
|}.

Definition env_set (sc : script) : env key unit query cstate := {|
  eqK := fun s a b => eq_answer sc s (cls_truth sc (kcls a) (kcls b));
  eqKQ := fun s a q => eq_answer sc s (cls_truth sc (kcls a) (qcls q));
  eqQQ := fun s q q' => eq_answer sc s (cls_truth sc (qcls q) (qcls q'));
  eqQK := fun s q a => eq_answer sc s (cls_truth sc (qcls q) (kcls a));
  eqV := fun s _ _ => (Yes, s);
  cloneK := clone_key_cb sc;
  cloneV := fun s _ => (Some tt, s);
  dropK := fun s k => (drop_boom sc (kid k), s);
  dropV := fun s _ => (false, s);
  idK := fun k => [kid k];
  idV := fun _ => []
|}.

(* ---------- registers ---------- *)
Record xworld := {
  xcb : cstate;
  xm0 : map key vobj; xm1 : map key vobj;
  xs0 : map key unit; xs1 : map key unit;
  xdead : bool
}.

Definition get_m (r : N) (x : xworld) : map key vobj := if N.eqb r 0 then xm0 x else xm1 x.
Definition get_s (r : N) (x : xworld) : map key unit := if N.eqb r 2 then xs0 x else xs1 x.
Definition put_m (r : N) (m : map key vobj) (c : cstate) (x : xworld) : xworld :=
  if N.eqb r 0 then {| xcb := c; xm0 := m; xm1 := xm1 x; xs0 := xs0 x; xs1 := xs1 x; xdead := xdead x |}
  else {| xcb := c; xm0 := xm0 x; xm1 := m; xs0 := xs0 x; xs1 := xs1 x; xdead := xdead x |}.
Definition put_s (r : N) (m : map key unit) (c : cstate) (x : xworld) : xworld :=
  if N.eqb r 2 then {| xcb := c; xm0 := xm0 x; xm1 := xm1 x; xs0 := m; xs1 := xs1 x; xdead := xdead x |}
  else {| xcb := c; xm0 := xm0 x; xm1 := xm1 x; xs0 := xs0 x; xs1 := m; xdead := xdead x |}.
Definition kill (x : xworld) : xworld :=
  {| xcb := xcb x; xm0 := xm0 x; xm1 := xm1 x; xs0 := xs0 x; xs1 := xs1 x; xdead := true |}.

(* ---------- observation rendering ---------- *)
Definition nn (n : nat) : N := N.of_nat n.

Fixpoint ins_N (x : N) (l : list N) : list N :=
  match l with
  | [] => [x]
  | y :: l' => if N.leb x y then x :: l else y :: ins_N x l'
  end.
Definition sort_N (l : list N) : list N := fold_right ins_N [] l.

Definition ev_drop_ids (l : list event) : list N :=
  flat_map (fun e => match e with EvDrop i => [i] | _ => [] end) l.
Definition ev_clone_ids (l : list event) : list N :=
  flat_map (fun e => match e with EvCloneK i => [i] | EvCloneV i => [i] | _ => [] end) l.
Definition events (l : list event) : list N :=
  [8888%N] ++ sort_N (ev_drop_ids l) ++ [8889%N] ++ sort_N (ev_clone_ids l).

Definition r_key (k : key) : list N := [kid k; kcls k].
Definition r_val (v : vobj) : list N := [vid v; vdat v].
Definition r_pair (p : key * vobj) : list N := r_key (fst p) ++ r_val (snd p).
Definition r_spair (p : key * unit) : list N := r_key (fst p).

Section Post.
Context {V : Type} (rp : key * V -> list N) (w : nat).   (* w = tokens per entry *)
Fixpoint post_slots (n i : nat) (sl : list (option (key * V))) : list N :=
  match n with
  | 0 => []
  | S n' => match nth_error sl i with
            | Some (Some p) => rp p
            | _ => 9004%N :: repeat 0%N (w - 1)
            end ++ post_slots n' (S i) sl
  end.
Definition post (m : map key V) : list N :=
  [7777%N; nn (len m); nn (cap m)] ++
  (if len m <=? cap m then post_slots (len m) 0 (slots m) else [9005%N]).
End Post.
Definition post_m := post r_pair 4.
Definition post_s := post r_spair 2.

(* ---------- running a computation on a register ---------- *)
Definition Mm := M key vobj cstate.
Definition Ms := M key unit cstate.

Definition finish {V} (pst : map key V -> list N) (put : map key V -> cstate -> xworld)
           (x : xworld) (rs : res key V cstate (list N)) : list N * xworld :=
  match rs with
  | Ok body w => ([1%N] ++ body ++ pst (self w) ++ events (log w), put (self w) (cb w))
  | Panic w => ([2%N] ++ pst (self w) ++ events (log w), put (self w) (cb w))
  | UB => ([3%N], kill x)
  end.

Definition run_m (r : N) (c : Mm (list N)) (x : xworld) : list N * xworld :=
  finish post_m (fun m cs => put_m r m cs x) x
         (c {| cb := xcb x; log := []; self := get_m r x |}).
Definition run_s (r : N) (c : Ms (list N)) (x : xworld) : list N * xworld :=
  finish post_s (fun m cs => put_s r m cs x) x
         (c {| cb := xcb x; log := []; self := get_s r x |}).

(* Run [c] on a detached container [m0] (a local of the caller); afterwards the
   register keeps / receives [after final_local final_self]. *)
Definition swap_self {V A} (m0 : map key V) (c : M key V cstate A)
  : M key V cstate (A * map key V) :=
  fun w => match c {| cb := cb w; log := log w; self := m0 |} with
           | Ok a w' => Ok (a, self w') {| cb := cb w'; log := log w'; self := self w |}
           | Panic w' => Panic {| cb := cb w'; log := log w'; self := self w |}
           | UB => UB
           end.

(* ---------- scripted closures ---------- *)
Fixpoint lookup_act (c : N) (tab : list (N * N)) (dflt : N) : N :=
  match tab with
  | [] => dflt
  | (c', a) :: t => if N.eqb c c' then a else lookup_act c t dflt
  end.

(* retain predicate: act 0 = remove, 1 = keep, 2 = keep and add 100 to the payload *)
Definition pred_m (sc : script) (dflt : N) (tab : list (N * N)) : pred_t (K:=key) (V:=vobj) (T:=cstate) :=
  fun s k v =>
    let '(boom, s') := call_tick sc s in
    if boom then ((None, v), s')
    else
      let a := lookup_act (kcls k) tab dflt in
      if N.eqb a 0 then ((Some false, v), s')
      else if N.eqb a 1 then ((Some true, v), s')
      else ((Some true, {| vid := vid v; vdat := vdat v + 100 |}), s').
Definition pred_s (sc : script) (dflt : N) (tab : list (N * N)) : cstate -> key -> option bool * cstate :=
  fun s k =>
    let '(boom, s') := call_tick sc s in
    if boom then (None, s')
    else (Some (negb (N.eqb (lookup_act (kcls k) tab dflt) 0)), s').

Definition nx_cb (sc : script) : cstate -> ans * cstate :=
  fun s => let '(boom, s') := call_tick sc s in ((if boom then Boom else No), s').
Definition nx_none : cstate -> ans * cstate := fun s => (No, s).

Definition mk_val (sc : script) (v : vobj) : cstate -> option vobj * cstate :=
  fun s => let '(boom, s') := call_tick sc s in ((if boom then None else Some v), s').
(* Val::default(): a fresh object with payload 0 *)
Definition mk_default (sc : script) : cstate -> option vobj * cstate :=
  fun s => let '(boom, s') := call_tick sc s in
           if boom then (None, s')
           else (Some {| vid := next_id s'; vdat := 0 |},
                 {| n_eq := n_eq s'; n_clone := n_clone s'; n_call := n_call s'; next_id := next_id s' + 1 |}).
Definition modf_add (sc : script) : modf_t (V:=vobj) (T:=cstate) :=
  fun s v => let '(boom, s') := call_tick sc s in
             if boom then ((true, v), s')
             else ((false, {| vid := vid v; vdat := vdat v + 100 |}), s').

(* ---------- small helpers inside the monad ---------- *)
Section Helpers.
Context {V : Type}.
Notation MV := (M key V cstate).

Definition slot_pair (i : nat) : MV (key * V) := p_ref i.

Definition opt_slot (rp : key * V -> list N) (r : option nat) : MV (list N) :=
  match r with
  | None => ret [0%N]
  | Some i => p <- p_ref i ;; ret ([1%N; nn i] ++ rp p)
  end.

End Helpers.

Definition set_dat (i : nat) (d : N) : Mm unit :=
  _ <- p_replace i (fun p => (fst p, {| vid := vid (snd p); vdat := d |})) ;; ret tt.

Definition r_optv (o : option vobj) : list N :=
  match o with None => [0%N] | Some v => 1%N :: r_val v end.
Definition r_optp (o : option (key * vobj)) : list N :=
  match o with None => [0%N] | Some p => 1%N :: r_pair p end.
Definition r_optk (o : option key) : list N :=
  match o with None => [0%N] | Some k => 1%N :: r_key k end.
Definition r_bool (b : bool) : list N := [if b then 1%N else 0%N].

(* live entries of a container that is not the current self *)
Fixpoint live_list {V} (sl : list (option (key * V))) (n i : nat) : list (key * V) :=
  match n with
  | 0 => []
  | S n' => match nth_error sl i with
            | Some (Some p) => p :: live_list sl n' (S i)
            | _ => live_list sl n' (S i)
            end
  end.
Definition elems {V} (m : map key V) : list (key * V) := live_list (slots m) (len m) 0.
Definition range_list {V} (m : map key V) (c : cursor) : list (key * V) :=
  live_list (slots m) (cursor_len c) (fst c).

(* element renderings used by Debug / Display in the harness *)
Definition dbg_key (k : key) : str := [75%N] ++ dec (kid k) ++ [99%N] ++ dec (kcls k).   (* K<id>c<cls> *)
Definition dbg_val (v : vobj) : str := [86%N] ++ dec (vid v) ++ [100%N] ++ dec (vdat v). (* V<id>d<dat> *)
Definition dsp_key (k : key) : str := [107%N] ++ dec (kcls k).                           (* k<cls> *)
Definition dsp_val (v : vobj) : str := [100%N] ++ dec (vdat v).                          (* d<dat> *)
Definition r_str (s : str) : list N := nn (length s) :: s.

(* ---------- the operations ---------- *)
Inductive op :=
| OInsert (r : N) (k : key) (v : vobj)
| OInsertKV (r : N) (k : key) (v : vobj)
| OCheckedInsert (r : N) (k : key) (v : vobj)
| OInsertUnchecked (r : N) (k : key) (v : vobj)
| OGet (r : N) (q : query)
| OGetMut (r : N) (q : query) (d : N)
| OGetKV (r : N) (q : query)
| OContains (r : N) (q : query)
| OIndex (r : N) (q : query)
| OIndexMut (r : N) (q : query) (d : N)
| ORemove (r : N) (q : query)
| ORemoveEntry (r : N) (q : query)
| ORetain (r : N) (dflt : N) (tab : list (N * N))
| OClear (r : N)
| ODrain (r : N) (take : nat) (fate : N)
| OWithCapacity (r : N) (c : nat)
| OIter (r : N) (kind : N) (steps : nat) (wd : N)
| OIntoIter (r : N) (kind : N) (take : nat) (fate : N)
| OEntry (r : N) (k : key) (chain : N) (v : vobj)
| ODisjoint (r : N) (unchecked : bool) (qs : list N) (wd : N)
| OClone (r r' : N)
| OEq (r r' : N)
| OFromIter (r : N) (arr : bool) (items : list (key * vobj))
| OFormat (r : N) (style : N)
| OSerde (r r' : N)
| SInsert (r : N) (k : key)
| SReplace (r : N) (k : key)
| SContains (r : N) (q : query)
| SGet (r : N) (q : query)
| SRemove (r : N) (q : query)
| STake (r : N) (q : query)
| SRetain (r : N) (dflt : N) (tab : list (N * N))
| SClear (r : N)
| SDrain (r : N) (take : nat) (fate : N)
| SExtend (r : N) (items : list key)
| SIter (r : N) (steps : nat)
| SIntoIter (r : N) (take : nat) (fate : N)
| SClone (r r' : N)
| SEq (r r' : N)
| SFromIter (r : N) (arr : bool) (items : list key)
| SAlgebra (kind : N) (r r' : N) (steps : nat) (mode : N)
| SPred (kind : N) (r r' : N)
| SSub (r r' : N)
| SFormat (r : N) (style : N)
| SSerde (r r' : N)
| OCloneFrom (r r' : N)        (* Clone::clone_from: the library default is *self = source.clone() *)
| SCloneFrom (r r' : N)
| ODefault (r : N)             (* *reg = Default::default() *)
| SDefault (r : N)
| OIterNth (r : N) (kind : N) (pre nk : nat)
| ODrainNth (r : N) (pre nk : nat)
| OIntoNth (r : N) (kind : N) (pre nk : nat)
| SIterNth (r : N) (pre nk : nat)
| SDrainNth (r : N) (pre nk : nat)
| SIntoNth (r : N) (pre nk : nat)
| OBad.

Section Step.
Context (debug : bool) (sc : script).
Let Em := env_map sc.
Let Es := env_set sc.

(* --- Drain sessions (Map and Set) --- *)
Section DrainSession.
Context {V : Type} (E : env key V query cstate) (rp : key * V -> list N)
        (dk : key -> str) (dv : V -> str).
Notation MV := (M key V cstate).

Fixpoint drain_steps (n : nat) (c : cursor) (acc : list N) : MV (list N * cursor) :=
  match n with
  | 0 => ret (acc, c)
  | S n' =>
      '(o, c') <- drain_next c ;;
      let acc' := acc ++ [nn (cursor_len c)] ++
                  match o with Some p => 1%N :: rp p | None => [0%N] end in
      drain_steps n' c' acc'
  end.

Definition dbg_range (alt : bool) (c : cursor) : MV (list N) :=
  fun w => Ok (r_str (debug_pairs dk dv alt (range_list (self w) c))) w.

(* the rest of a Drain consumed by for_each(closure): default fold = repeated
   next(); a panicking closure unwinds first through its own frame, which owns the
   item it was given, and then through the Drain, whose destructor drops what is left *)
Definition call_or_drain (cl : cstate -> ans * cstate) (p : key * V) (c : cursor) : MV unit :=
  on_unwind (unwind_pair E p ;; unwind_drain E c) (emit [EvCall 4] ;; _ <- cbk cl ;; ret tt).
Fixpoint drain_for_each (cl : cstate -> ans * cstate) (fuel : nat) (c : cursor) (cnt : nat) : MV nat :=
  match fuel with
  | 0 => ret cnt
  | S f =>
      '(o, c') <- drain_next c ;;
      match o with
      | None => ret cnt
      | Some p => call_or_drain cl p c' ;; drain_for_each cl f c' (S cnt)
      end
  end.
(* count() (the library default: fold over next()): every item is destroyed as soon as it has been
   counted; a panicking Drop unwinds through the Drain, which drops what is left *)
Fixpoint drain_count (fuel : nat) (c : cursor) (cnt : nat) : MV nat :=
  match fuel with
  | 0 => ret cnt
  | S f =>
      '(o, c') <- drain_next c ;;
      match o with
      | None => ret cnt
      | Some p => on_unwind (unwind_drain E c') (drop_pair E p) ;; drain_count f c' (S cnt)
      end
  end.

(* [with_dbg]: Drain implements Debug, SetDrain does not.
   fate: 0 = dropped | 1 = forgotten | 2 = rest consumed by for_each(closure) | 3 = rest consumed by count() *)
Definition drain_session (with_dbg : bool) (cl : cstate -> ans * cstate) (take : nat) (fate : N) : MV (list N) :=
  c <- drain ;;
  '(acc, c') <- drain_steps take c [] ;;
  d0 <- (if with_dbg then dbg_range false c' else ret []) ;;
  d1 <- (if with_dbg then dbg_range true c' else ret []) ;;
  tail <- (if N.eqb fate 0 then (drain_drop E c' ;; ret [])
           else if N.eqb fate 2 then (n <- drain_for_each cl (S (cursor_len c')) c' 0 ;; ret [nn n])
           else if N.eqb fate 3 then (n <- drain_count (S (cursor_len c')) c' 0 ;; ret [nn n])
           else ret []) ;;
  ret (acc ++ [nn (cursor_len c')] ++ d0 ++ d1 ++ tail).
End DrainSession.

(* --- borrowing iterator sessions on a Map register --- *)
(* kind: 0 iter | 1 iter_mut | 2 keys | 3 values | 4 values_mut *)
Definition r_item (kind : N) (p : key * vobj) : list N :=
  if N.eqb kind 2 then r_key (fst p)
  else if N.eqb kind 3 || N.eqb kind 4 then r_val (snd p)
  else r_pair p.
Definition is_mut_kind (kind : N) : bool := N.eqb kind 1 || N.eqb kind 4.

Fixpoint iter_steps (kind : N) (wd : N) (n j : nat) (c : cursor) (acc : list N)
  : Mm (list N * cursor) :=
  match n with
  | 0 => ret (acc, c)
  | S n' =>
      let l := nn (cursor_len c) in
      '(o, c') <- iter_next c ;;
      match o with
      | None => iter_steps kind wd n' (S j) c' (acc ++ [l; l; l; 0%N])
      | Some i =>
          p <- p_ref i ;;
          (if is_mut_kind kind then set_dat i (wd + nn j) else ret tt) ;;
          iter_steps kind wd n' (S j) c' (acc ++ [l; l; l; 1%N; nn i] ++ r_item kind p)
      end
  end.

Definition dbg_iter (kind : N) (alt : bool) (c : cursor) : Mm (list N) :=
  fun w =>
    let l := range_list (self w) c in
    Ok (r_str (if N.eqb kind 2 then debug_keys dbg_key alt (List.map fst l)
               else if N.eqb kind 3 || N.eqb kind 4 then debug_values dbg_val alt (List.map snd l)
               else debug_pairs dbg_key dbg_val alt l)) w.

(* the slots a clone of the iterator would still yield *)
Fixpoint rest_slots (n lo : nat) : Mm (list N) :=
  match n with
  | 0 => ret []
  | S n' => _ <- p_ref lo ;; r <- rest_slots n' (S lo) ;; ret (nn lo :: r)
  end.

Definition iter_session (kind : N) (steps : nat) (wd : N) : Mm (list N) :=
  c <- iter ;;
  '(acc, c') <- iter_steps kind wd steps 0 c [] ;;
  d0 <- dbg_iter kind false c' ;;
  d1 <- dbg_iter kind true c' ;;
  rest <- (if is_mut_kind kind then ret [] else rest_slots (cursor_len c') (fst c')) ;;
  ret (acc ++ d0 ++ d1 ++ [nn (length rest)] ++ rest ++ [nn (cursor_len c')]).

(* --- consuming iterator sessions: run on the detached container --- *)
(* kind: 0 into_iter | 1 into_keys | 2 into_values *)
Definition into_steps_item (kind : N) (p : key * vobj) : Mm (list N) :=
  if N.eqb kind 1 then (drop_val Em (snd p) ;; ret (r_key (fst p)))
  else if N.eqb kind 2 then (drop_key Em (fst p) ;; ret (r_val (snd p)))
  else ret (r_pair p).

Fixpoint into_steps (kind : N) (n : nat) (acc : list N) : Mm (list N) :=
  match n with
  | 0 => ret acc
  | S n' =>
      l <- get_len ;;
      o <- into_iter_next ;;
      match o with
      | None => into_steps kind n' (acc ++ [nn l; 0%N])
      | Some p => it <- into_steps_item kind p ;;
                  into_steps kind n' (acc ++ [nn l; 1%N] ++ it)
      end
  end.

Definition dbg_into (kind : N) (alt : bool) : Mm (list N) :=
  fun w =>
    let l := elems (self w) in
    Ok (r_str (if N.eqb kind 1 then debug_keys dbg_key alt (List.map fst l)
               else if N.eqb kind 2 then debug_values dbg_val alt (List.map snd l)
               else debug_pairs dbg_key dbg_val alt l)) w.

(* what a consumer of the iterator's items owns: the pair, or the half that into_keys / into_values yield *)
Definition unwind_item (kind : N) (p : key * vobj) : Mm unit :=
  if N.eqb kind 1 then unwind_key Em (fst p)
  else if N.eqb kind 2 then unwind_val Em (snd p)
  else unwind_pair Em p.
Definition into_rest (kind : N) (p : key * vobj) : Mm unit :=
  if N.eqb kind 1 then drop_key Em (fst p)
  else if N.eqb kind 2 then drop_val Em (snd p)
  else drop_pair Em p.

(* the rest of a consuming iterator consumed by for_each(closure): a panicking closure
   destroys the item it was given while its frame unwinds *)
Fixpoint into_for_each (kind : N) (fuel cnt : nat) : Mm nat :=
  match fuel with
  | 0 => ret cnt
  | S f =>
      o <- into_iter_next ;;
      match o with
      | None => ret cnt
      | Some p => _ <- into_steps_item kind p ;;
                  on_unwind (unwind_item kind p) (emit [EvCall 4] ;; _ <- cbk (nx_cb sc) ;; ret tt) ;;
                  into_for_each kind f (S cnt)
      end
  end.
(* count() by the library default (IntoKeys, IntoValues): fold over next(), every yielded half is
   destroyed as soon as it has been counted *)
Fixpoint into_count (kind : N) (fuel cnt : nat) : Mm nat :=
  match fuel with
  | 0 => ret cnt
  | S f =>
      o <- into_iter_next ;;
      match o with
      | None => ret cnt
      | Some p => _ <- into_steps_item kind p ;; into_rest kind p ;; into_count kind f (S cnt)
      end
  end.

(* fate: 0 = dropped | 1 = forgotten | 2 = for_each(closure) | 3 = count(): IntoIter overrides it
   (src/iterators.rs:255: the length, then the iterator is dropped), the other kinds use the default.
   The iterator is a local of the caller: a panic inside next() (the Drop of the unused half) unwinds
   through it and its destructor drops what is left. *)
Definition into_session (kind : N) (take : nat) (fate : N) : Mm (list N) :=
  '(acc, d0, d1, l) <- finally_drop Em (
      acc <- into_steps kind take [] ;;
      d0 <- dbg_into kind false ;;
      d1 <- dbg_into kind true ;;
      l <- get_len ;;
      ret (acc, d0, d1, l)) ;;
  tail <- (if N.eqb fate 0 then (drop_map Em ;; ret [])
           else if N.eqb fate 2 then (n <- finally_drop Em (into_for_each kind (S l) 0) ;; ret [nn n])
           else if N.eqb fate 3 then
             (if N.eqb kind 0 then (drop_map Em ;; ret [nn l])
              else (n <- finally_drop Em (into_count kind (S l) 0) ;; ret [nn n]))
           else ret []) ;;
  ret (acc ++ d0 ++ d1 ++ [nn l] ++ tail).

(* --- Iterator::nth (the library default: n calls of next() whose items are
       destroyed inside nth, then one more call) on every iterator kind;
       skip(n) and step_by are built on it.  Observed: len before, the item
       nth returns, len after, one more next() (None must stay None), len. --- *)
Section NthSessions.
Context {V : Type} (E : env key V query cstate).
Notation MV := (M key V cstate).

Fixpoint b_skip (n : nat) (c : cursor) : MV cursor :=
  match n with
  | 0 => ret c
  | S n' => '(_, c') <- iter_next c ;; b_skip n' c'
  end.
Fixpoint b_nth (n : nat) (c : cursor) : MV (option nat * cursor) :=
  match n with
  | 0 => iter_next c
  | S n' => '(o, c') <- iter_next c ;;
            match o with None => ret (None, c') | Some _ => b_nth n' c' end
  end.
Definition r_slot_item (proj : key * V -> list N) (o : option nat) : MV (list N) :=
  match o with
  | None => ret [0%N]
  | Some i => p <- p_ref i ;; ret ([1%N; nn i] ++ proj p)
  end.
Definition iter_nth_session (proj : key * V -> list N) (pre nk : nat) : MV (list N) :=
  c <- iter ;;
  c1 <- b_skip pre c ;;
  '(o, c2) <- b_nth nk c1 ;;
  r <- r_slot_item proj o ;;
  '(o2, c3) <- iter_next c2 ;;
  r2 <- r_slot_item proj o2 ;;
  ret ([nn (cursor_len c1)] ++ r ++ [nn (cursor_len c2)] ++ r2 ++ [nn (cursor_len c3)]).

Fixpoint d_skip (n : nat) (c : cursor) : MV cursor :=
  match n with
  | 0 => ret c
  | S n' => '(_, c') <- drain_next c ;; d_skip n' c'     (* the caller receives and keeps the item *)
  end.
Fixpoint d_nth (n : nat) (c : cursor) : MV (option (key * V) * cursor) :=
  match n with
  | 0 => drain_next c
  | S n' => '(o, c') <- drain_next c ;;
            match o with
            | None => ret (None, c')
            | Some p => on_unwind (unwind_drain E c') (drop_pair E p) ;; d_nth n' c'   (* the Drain unwinds *)
            end
  end.
Definition r_opt_item (rp : key * V -> list N) (o : option (key * V)) : list N :=
  match o with None => [0%N] | Some p => 1%N :: rp p end.
Definition drain_nth_session (rp : key * V -> list N) (pre nk : nat) : MV (list N) :=
  c <- drain ;;
  c1 <- d_skip pre c ;;
  '(o, c2) <- d_nth nk c1 ;;
  '(o2, c3) <- drain_next c2 ;;
  drain_drop E c3 ;;
  ret ([nn (cursor_len c1)] ++ r_opt_item rp o ++ [nn (cursor_len c2)] ++ r_opt_item rp o2 ++ [nn (cursor_len c3)]).

(* consuming iterators: [item p] is what next() does to the popped pair before
   yielding (into_keys destroys the value, into_values the key); [rest p] destroys
   what nth received and skips *)
Section Into.
Context (item : key * V -> MV (list N)) (rest : key * V -> MV unit).
Fixpoint i_skip (n : nat) : MV unit :=
  match n with
  | 0 => ret tt
  | S n' => o <- into_iter_next ;;
            match o with None => ret tt | Some p => _ <- item p ;; i_skip n' end
  end.
Fixpoint i_nth (n : nat) : MV (list N) :=
  match n with
  | 0 => o <- into_iter_next ;;
         match o with None => ret [0%N] | Some p => r <- item p ;; ret (1%N :: r) end
  | S n' => o <- into_iter_next ;;
            match o with None => ret [0%N] | Some p => _ <- item p ;; rest p ;; i_nth n' end
  end.
Definition into_nth_session (pre nk : nat) : MV (list N) :=
  body <- finally_drop E (                      (* the iterator is a local of the caller: it unwinds *)
    i_skip pre ;;
    l1 <- get_len ;;
    r <- i_nth nk ;;
    l2 <- get_len ;;
    r2 <- i_nth 0 ;;
    l3 <- get_len ;;
    ret ([nn l1] ++ r ++ [nn l2] ++ r2 ++ [nn l3])) ;;
  drop_map E ;;
  ret body.
End Into.
End NthSessions.

(* --- entry chains --- *)
Definition r_slotval (tag : N) (i : nat) : Mm (list N) :=
  p <- p_ref i ;; ret ([tag; nn i] ++ r_val (snd p)).

Definition entry_chain (k : key) (chain : N) (v : vobj) : Mm (list N) :=
  e <- entry_of Em k ;;
  match chain with
  | 0%N => i <- or_insert Em debug e v ;; r_slotval 0 i
  | 1%N => i <- or_insert_with Em debug e (mk_val sc v) ;; r_slotval 0 i
  | 2%N => i <- or_insert_with_key Em debug e (fun _ => mk_val sc v) ;; r_slotval 0 i
  | 3%N => i <- or_insert_with Em debug e (mk_default sc) ;; r_slotval 0 i
  | 4%N => e' <- and_modify e (modf_add sc) ;; i <- or_insert Em debug e' v ;; r_slotval 0 i
  | 5%N =>
      x <- entry_key e ;;
      match x with
      | inl j => p <- p_ref j ;; ret ([0%N; nn j] ++ r_key (fst p))
      | inr k' => drop_key Em k' ;; ret (1%N :: r_key k')
      end
  | 6%N =>
      match e with
      | Occupied i => j <- occ_get i ;; r_slotval 0 j
      | Vacant k' => drop_key Em k' ;; ret (1%N :: r_key k')
      end
  | 7%N =>
      match e with
      | Occupied i => j <- occ_get_mut i ;; r <- r_slotval 0 j ;; set_dat j (vdat v) ;; ret r
      | Vacant k' => ret (1%N :: r_key k')
      end
  | 8%N =>
      match e with
      | Occupied i => old <- occ_insert i v ;; ret (0%N :: r_val old)
      | Vacant k' => j <- vac_insert Em debug k' v ;; r_slotval 1 j
      end
  | 9%N =>
      match e with
      | Occupied i => old <- occ_remove Em debug i ;; ret (0%N :: r_val old)
      | Vacant k' => drop_key Em k' ;; ret [1%N]
      end
  | 10%N =>
      match e with
      | Occupied i => p <- occ_remove_entry debug i ;; ret (0%N :: r_pair p)
      | Vacant k' => ret (1%N :: r_key k')
      end
  | _ =>
      match e with
      | Occupied i => j <- occ_into_mut i ;; r <- r_slotval 0 j ;; set_dat j (vdat v) ;; ret r
      | Vacant k' => j <- vac_insert Em debug k' v ;; r_slotval 1 j
      end
  end.

(* --- get_disjoint_mut --- *)
Fixpoint disjoint_render (l : list (option nat)) (wd : N) (j : nat) : Mm (list N) :=
  match l with
  | [] => ret []
  | None :: l' => r <- disjoint_render l' wd (S j) ;; ret (0%N :: r)
  | Some i :: l' =>
      p <- p_ref i ;;
      set_dat i (wd + nn j) ;;
      r <- disjoint_render l' wd (S j) ;;
      ret ([1%N; nn i] ++ r_val (snd p) ++ r)
  end.

Definition disjoint_session (unchecked : bool) (qs : list N) (wd : N) : Mm (list N) :=
  let ks := List.map QCls qs in
  l <- (if unchecked then get_disjoint_unchecked_mut Em ks else get_disjoint_mut Em ks) ;;
  disjoint_render l wd 0.

(* --- formatting --- *)
Definition format_m (style : N) : Mm (list N) :=
  iter ;;   (* the live prefix is borrowed: checked slice *)
  fun w =>
    let l := elems (self w) in
    Ok (r_str (if N.eqb style 0 then display_map dsp_key dsp_val l
               else debug_map dbg_key dbg_val (N.eqb style 2) l)) w.
Definition format_s (style : N) : Ms (list N) :=
  iter ;;
  fun w =>
    let l := List.map fst (elems (self w)) in
    Ok (r_str (if N.eqb style 0 then display_set dsp_key l
               else debug_set dbg_key (N.eqb style 2) l)) w.

(* --- replacing a register by a freshly built container: the old value is
       destroyed after the new one exists --- *)
Definition replace_with {V} (E : env key V query cstate) (build : M key V cstate unit)
           (body : list N) : M key V cstate (list N) :=
  c <- get_cap ;;
  '(_, fresh) <- swap_self (new_map c) build ;;
  old <- get_self ;;
  put_self fresh ;;
  '(_, _) <- swap_self old (drop_map E) ;;
  ret body.

(* --- serde: src/serialization.rs, src/set/serialization.rs.  The visitor
   pulls one entry at a time (decoding it creates fresh objects: key first,
   then value) and inserts it into a local container. --- *)
Definition bump_id {V} (n : N) : M key V cstate unit :=
  fun w => Ok tt {| cb := {| n_eq := n_eq (cb w); n_clone := n_clone (cb w);
                             n_call := n_call (cb w); next_id := n |};
                    log := log w; self := self w |}.
Definition get_next_id {V} : M key V cstate N := fun w => Ok (next_id (cb w)) w.

Fixpoint visit_map (items : list (key * vobj)) : Mm unit :=
  match items with
  | [] => ret tt
  | (k, v) :: rest =>
      id <- get_next_id ;; bump_id (id + 2) ;;
      old <- insert Em debug {| kid := id; kcls := kcls k |} {| vid := id + 1; vdat := vdat v |} ;;
      drop_opt_val Em old ;;
      visit_map rest
  end.
Fixpoint visit_seq (items : list key) : Ms unit :=
  match items with
  | [] => ret tt
  | k :: rest =>
      id <- get_next_id ;; bump_id (id + 1) ;;
      _ <- s_insert Es debug {| kid := id; kcls := kcls k |} ;;
      visit_seq rest
  end.

(* --- set algebra sessions --- *)
Definition r_side (a b : map key unit) (x : bool * nat) : Ms (list N) :=
  let m := if fst x then b else a in
  match nth_error (slots m) (snd x) with
  | Some (Some p) => ret ([if fst x then 1%N else 0%N; nn (snd x)] ++ r_key (fst p))
  | _ => ub
  end.
Fixpoint r_sides (a b : map key unit) (l : list (bool * nat)) : Ms (list N) :=
  match l with
  | [] => ret []
  | x :: t => h <- r_side a b x ;; r <- r_sides a b t ;; ret (h ++ r)
  end.

(* a uniform view of the five adaptors *)
Inductive astate := ACur (c : cursor) | AChain (u : chain).

Definition alg_init (kind : N) (a b : map key unit) : Ms astate :=
  if N.eqb kind 2 then (u <- union a b ;; ret (AChain u))
  else if N.eqb kind 3 then (u <- symdiff a b ;; ret (AChain u))
  else (c <- difference a ;; ret (ACur c)).

Definition tag_left (r : option nat * cursor) : option (bool * nat) * astate :=
  (option_map (fun i => (false, i)) (fst r), ACur (snd r)).

Definition alg_next (kind : N) (a b : map key unit) (st : astate)
  : Ms (option (bool * nat) * astate) :=
  match st with
  | ACur c =>
      r <- (if N.eqb kind 1 then inter_next Es a b c else diff_next Es a b c) ;;
      ret (tag_left r)
  | AChain u =>
      '(o, u') <- (if N.eqb kind 2 then union_next Es a b u else symdiff_next Es a b u) ;;
      ret (o, AChain u')
  end.

Definition alg_hint (kind : N) (a b : map key unit) (st : astate) : nat * nat :=
  match st with
  | ACur c => if N.eqb kind 1 then inter_size_hint b c else diff_size_hint b c
  | AChain u => if N.eqb kind 2 then union_size_hint b u else symdiff_size_hint a b u
  end.

Definition alg_fold (kind : N) (a b : map key unit) (st : astate) : Ms (list (bool * nat)) :=
  match st with
  | ACur c =>
      l <- (if N.eqb kind 1 then inter_fold Es a b c [] else diff_fold Es a b c []) ;;
      ret (List.map (fun i => (false, i)) l)
  | AChain u => if N.eqb kind 2 then union_fold Es a b u else symdiff_fold Es a b u
  end.

Fixpoint alg_steps (kind : N) (a b : map key unit) (n : nat) (st : astate) (acc : list N)
  : Ms (list N * astate) :=
  match n with
  | 0 => ret (acc, st)
  | S n' =>
      let '(lo, hi) := alg_hint kind a b st in
      '(o, st') <- alg_next kind a b st ;;
      match o with
      | None => alg_steps kind a b n' st' (acc ++ [nn lo; nn hi; 0%N])
      | Some x => h <- r_side a b x ;;
                  alg_steps kind a b n' st' (acc ++ [nn lo; nn hi; 1%N] ++ h)
      end
  end.

(* Debug of an adaptor = debug_list of what a clone of it still yields *)
Definition alg_debug (a b : map key unit) (rest : list (bool * nat)) (alt : bool) : list N :=
  let keys := flat_map (fun x : bool * nat =>
                          let m := if fst x then b else a in
                          match nth_error (slots m) (snd x) with
                          | Some (Some p) => [fst p]
                          | _ => []
                          end) rest in
  r_str (debug_keys dbg_key alt keys).

(* mode (how the harness consumes the rest: next loop | fold | clone+count) does
   not change what the model yields *)
Definition alg_session (kind : N) (a b : map key unit) (steps : nat) (mode : N) : Ms (list N) :=
  st <- alg_init kind a b ;;
  '(acc, st') <- alg_steps kind a b steps st [] ;;
  let '(lo, hi) := alg_hint kind a b st' in
  dbg <- alg_fold kind a b st' ;;     (* Debug iterates a clone: callbacks run *)
  rest <- alg_fold kind a b st' ;;    (* then the rest is consumed *)
  rr <- r_sides a b rest ;;
  ret (acc ++ [nn lo; nn hi] ++ alg_debug a b dbg false ++ [nn (length rest)] ++
       (if N.leb 3 mode then [] else rr)).

Fixpoint rest_slots_s (n lo : nat) : Ms (list N) :=
  match n with
  | 0 => ret []
  | S n' => _ <- p_ref lo ;; r <- rest_slots_s n' (S lo) ;; ret (nn lo :: r)
  end.

Fixpoint set_iter_steps (n : nat) (c : cursor) (acc : list N) : Ms (list N * cursor) :=
  match n with
  | 0 => ret (acc, c)
  | S n' =>
      let l := nn (cursor_len c) in
      '(o, c') <- iter_next c ;;
      match o with
      | None => set_iter_steps n' c' (acc ++ [l; l; l; 0%N])
      | Some i => p <- p_ref i ;;
                  set_iter_steps n' c' (acc ++ [l; l; l; 1%N; nn i] ++ r_key (fst p))
      end
  end.

Definition set_iter_session (steps : nat) : Ms (list N) :=
  c <- iter ;;
  '(acc, c') <- set_iter_steps steps c [] ;;
  rest <- rest_slots_s (cursor_len c') (fst c') ;;
  ret (acc ++ [nn (length rest)] ++ rest ++ [nn (cursor_len c')]).

Fixpoint set_into_steps (n : nat) (acc : list N) : Ms (list N) :=
  match n with
  | 0 => ret acc
  | S n' =>
      l <- get_len ;;
      o <- into_iter_next ;;
      match o with
      | None => set_into_steps n' (acc ++ [nn l; 0%N])
      | Some p => set_into_steps n' (acc ++ [nn l; 1%N] ++ r_key (fst p))
      end
  end.

Fixpoint set_into_for_each (fuel cnt : nat) : Ms nat :=
  match fuel with
  | 0 => ret cnt
  | S f =>
      o <- into_iter_next ;;
      match o with
      | None => ret cnt
      | Some p => on_unwind (unwind_key Es (fst p)) (emit [EvCall 4] ;; _ <- cbk (nx_cb sc) ;; ret tt) ;;
                  set_into_for_each f (S cnt)
      end
  end.
(* SetIntoIter::count is the library default: every element is destroyed as soon as it has been counted *)
Fixpoint set_into_count (fuel cnt : nat) : Ms nat :=
  match fuel with
  | 0 => ret cnt
  | S f =>
      o <- into_iter_next ;;
      match o with
      | None => ret cnt
      | Some p => drop_key Es (fst p) ;; set_into_count f (S cnt)
      end
  end.

Definition q_ok (r : N) := N.ltb r 2.
Definition s_ok (r : N) := N.leb 2 r && N.ltb r 4.

Definition step (o : op) (x : xworld) : list N * xworld :=
  if xdead x then ([3%N], x) else
  match o with
  | OInsert r k v => run_m r (o <- insert Em debug k v ;; ret (r_optv o)) x
  | OInsertKV r k v => run_m r (o <- insert_key_value Em debug k v ;; ret (r_optp o)) x
  | OCheckedInsert r k v =>
      run_m r (o <- checked_insert Em debug k v ;;
               ret (match o with None => [2%N] | Some o' => r_optv o' end)) x
  | OInsertUnchecked r k v => run_m r (o <- insert_unchecked Em debug k v ;; ret (r_optv o)) x
  | OGet r q => run_m r (o <- get Em q ;; opt_slot (fun p => r_val (snd p)) o) x
  | OGetMut r q d =>
      run_m r (o <- get_mut Em q ;; b <- opt_slot (fun p => r_val (snd p)) o ;;
               (match o with Some i => set_dat i d | None => ret tt end) ;; ret b) x
  | OGetKV r q => run_m r (o <- get_key_value Em q ;; opt_slot r_pair o) x
  | OContains r q => run_m r (b <- contains_key Em q ;; ret (r_bool b)) x
  | OIndex r q => run_m r (i <- index Em q ;; p <- p_ref i ;; ret (nn i :: r_val (snd p))) x
  | OIndexMut r q d =>
      run_m r (i <- index_mut Em q ;; p <- p_ref i ;; set_dat i d ;; ret (nn i :: r_val (snd p))) x
  | ORemove r q => run_m r (o <- remove Em debug q ;; ret (r_optv o)) x
  | ORemoveEntry r q => run_m r (o <- remove_entry Em debug q ;; ret (r_optp o)) x
  | ORetain r dflt tab => run_m r (retain Em debug (pred_m sc dflt tab) ;; ret []) x
  | OClear r => run_m r (clear Em ;; ret []) x
  | ODrain r take fate => run_m r (drain_session Em r_pair dbg_key dbg_val true (nx_cb sc) take fate) x
  | OWithCapacity r c =>
      run_m r (n <- get_cap ;;
               if with_capacity_ok c n then replace_with Em (ret tt) [] else panic) x
  | OIter r kind steps wd => run_m r (iter_session kind steps wd) x
  | OIntoIter r kind take fate =>
      run_m r (c <- get_cap ;; old <- get_self ;; put_self (new_map c) ;;
               '(body, _) <- swap_self old (into_session kind take fate) ;; ret body) x
  | OEntry r k chain v => run_m r (entry_chain k chain v) x
  | ODisjoint r unchecked qs wd => run_m r (disjoint_session unchecked qs wd) x
  | OClone r r' =>
      if Nat.eqb (cap (get_m r x)) (cap (get_m r' x)) then
        run_m r' (replace_with Em (clone_from_src Em (get_m r x)) []) x
      else ([9%N], x)
  | OEq r r' => run_m r (b <- map_eq Em (get_m r x) (get_m r' x) ;; ret (r_bool b)) x
  | OFromIter r arr items =>
      run_m r (replace_with Em (from_iter Em debug (if arr then nx_none else nx_cb sc) items) []) x
  | OFormat r style => run_m r (format_m style) x
  | OSerde r r' =>
      let src := get_m r x in
      run_m r' (replace_with Em (finally_drop Em (visit_map (elems src)))
                             [nn (len src); nn (length (elems src))]) x
  | SInsert r k => run_s r (b <- s_insert Es debug k ;; ret (r_bool b)) x
  | SReplace r k => run_s r (o <- s_replace Es debug k ;; ret (r_optk o)) x
  | SContains r q => run_s r (b <- s_contains Es q ;; ret (r_bool b)) x
  | SGet r q => run_s r (o <- s_get Es q ;; opt_slot r_spair o) x
  | SRemove r q => run_s r (b <- s_remove Es debug q ;; ret (r_bool b)) x
  | STake r q => run_s r (o <- s_take Es debug q ;; ret (r_optk o)) x
  | SRetain r dflt tab => run_s r (s_retain Es debug (pred_s sc dflt tab) ;; ret []) x
  | SClear r => run_s r (s_clear Es ;; ret []) x
  | SDrain r take fate =>
      run_s r (drain_session Es r_spair dbg_key (fun _ => [40%N; 41%N]) false (nx_cb sc) take fate) x
  | SExtend r items => run_s r (s_extend Es debug (nx_cb sc) items ;; ret []) x
  | SIter r steps => run_s r (set_iter_session steps) x
  | SIntoIter r take fate =>
      run_s r (c <- get_cap ;; old <- get_self ;; put_self (new_map c) ;;
               '(body, _) <- swap_self old
                  (acc <- set_into_steps take [] ;; l <- get_len ;;
                   tail <- (if N.eqb fate 0 then (drop_map Es ;; ret [])
                            else if N.eqb fate 2 then (n <- finally_drop Es (set_into_for_each (S l) 0) ;; ret [nn n])
                            else if N.eqb fate 3 then (n <- finally_drop Es (set_into_count (S l) 0) ;; ret [nn n])
                            else ret []) ;;
                   ret (acc ++ [nn l] ++ tail)) ;;
               ret body) x
  | SClone r r' =>
      if Nat.eqb (cap (get_s r x)) (cap (get_s r' x)) then
        run_s r' (replace_with Es (clone_from_src Es (get_s r x)) []) x
      else ([9%N], x)
  | SEq r r' => run_s r (b <- map_eq Es (get_s r x) (get_s r' x) ;; ret (r_bool b)) x
  | SFromIter r arr items =>
      run_s r (replace_with Es (s_from_iter Es debug (if arr then nx_none else nx_cb sc) items) []) x
  | SAlgebra kind r r' steps mode =>
      run_s r (alg_session kind (get_s r x) (get_s r' x) steps mode) x
  | SPred kind r r' =>
      let a := get_s r x in let b := get_s r' x in
      run_s r (b' <- (if N.eqb kind 0 then is_disjoint Es a b
                      else if N.eqb kind 1 then is_subset Es a b
                      else is_superset Es a b) ;; ret (r_bool b')) x
  | SSub r r' =>
      let a := get_s r x in let b := get_s r' x in
      run_s r ('(_, res) <- swap_self (new_map (cap a)) (set_sub Es debug a b) ;;
               let body := nn (len res) :: flat_map r_spair (elems res) in
               '(_, _) <- swap_self res (drop_map Es) ;;
               ret body) x
  | SFormat r style => run_s r (format_s style) x
  | SSerde r r' =>
      let src := get_s r x in
      run_s r' (replace_with Es (finally_drop Es (visit_seq (List.map fst (elems src))))
                             [nn (len src); nn (length (elems src))]) x
  | OCloneFrom r r' =>
      if Nat.eqb (cap (get_m r x)) (cap (get_m r' x)) then
        run_m r' (replace_with Em (clone_from_src Em (get_m r x)) []) x
      else ([9%N], x)
  | SCloneFrom r r' =>
      if Nat.eqb (cap (get_s r x)) (cap (get_s r' x)) then
        run_s r' (replace_with Es (clone_from_src Es (get_s r x)) []) x
      else ([9%N], x)
  | ODefault r => run_m r (replace_with Em (ret tt) []) x
  | SDefault r => run_s r (replace_with Es (ret tt) []) x
  | OIterNth r kind pre nk => run_m r (iter_nth_session (r_item kind) pre nk) x
  | ODrainNth r pre nk => run_m r (drain_nth_session Em r_pair pre nk) x
  | OIntoNth r kind pre nk =>
      run_m r (c <- get_cap ;; old <- get_self ;; put_self (new_map c) ;;
               '(body, _) <- swap_self old (into_nth_session Em (into_steps_item kind) (into_rest kind) pre nk) ;;
               ret body) x
  | SIterNth r pre nk => run_s r (iter_nth_session r_spair pre nk) x
  | SDrainNth r pre nk => run_s r (drain_nth_session Es r_spair pre nk) x
  | SIntoNth r pre nk =>
      run_s r (c <- get_cap ;; old <- get_self ;; put_self (new_map c) ;;
               '(body, _) <- swap_self old
                  (into_nth_session Es (fun p => ret (r_key (fst p))) (fun p => drop_key Es (fst p)) pre nk) ;;
               ret body) x
  | OBad => ([9%N], x)
  end.

(* final teardown: every register is dropped, in order; the register is left
   holding a fresh empty container *)
Definition drop_reg {V} (E : env key V query cstate) : M key V cstate (list N) :=
  c <- get_cap ;; old <- get_self ;; put_self (new_map c) ;;
  '(_, _) <- swap_self old (drop_map E) ;; ret [].

Definition teardown (x : xworld) : list N * xworld :=
  if xdead x then ([3%N], x) else
  let '(o0, x) := run_m 0 (drop_reg Em) x in
  let '(o1, x) := run_m 1 (drop_reg Em) x in
  let '(o2, x) := run_s 2 (drop_reg Es) x in
  let '(o3, x) := run_s 3 (drop_reg Es) x in
  (o0 ++ o1 ++ o2 ++ o3 ++
   [8890%N; n_eq (xcb x); n_clone (xcb x); n_call (xcb x); next_id (xcb x)], x).

(* A call that unwinds is compared on what the CRATE destroyed: the objects the caller handed in with
   this very call are destroyed either by the crate or by the caller's own unwinding frames, which the
   model does not distinguish, so their identities are struck from the drop events of a panicking call. *)
Definition ids_k (k : key) : list N := [kid k].
Definition ids_q (q : query) : list N := match q with QKey k => [kid k] | _ => [] end.
Definition op_ids (o : op) : list N :=
  match o with
  | OInsert _ k v | OInsertKV _ k v | OCheckedInsert _ k v | OInsertUnchecked _ k v | OEntry _ k _ v => [kid k; vid v]
  | OGet _ q | OGetKV _ q | OContains _ q | OIndex _ q | ORemove _ q | ORemoveEntry _ q
  | OGetMut _ q _ | OIndexMut _ q _ | SContains _ q | SGet _ q | SRemove _ q | STake _ q => ids_q q
  | OFromIter _ _ items => flat_map (fun p => [kid (fst p); vid (snd p)]) items
  | SInsert _ k | SReplace _ k => [kid k]
  | SExtend _ items | SFromIter _ _ items => List.map kid items
  | _ => []
  end.
Fixpoint split_at (m : N) (l : list N) : list N * list N :=
  match l with
  | [] => ([], [])
  | a :: t => if N.eqb a m then ([], t) else let '(x, y) := split_at m t in (a :: x, y)
  end.
Definition censor (ids : list N) (obs : list N) : list N :=
  match obs with
  | 2%N :: t =>
      let '(pst, ev) := split_at 8888 t in
      let '(drops, clones) := split_at 8889 ev in
      2%N :: pst ++ [8888%N] ++ List.filter (fun i => negb (existsb (N.eqb i) ids)) drops ++ [8889%N] ++ clones
  | _ => obs
  end.

Fixpoint run_ops (ops : list op) (x : xworld) : list (list N) :=
  match ops with
  | [] => [fst (teardown x)]
  | o :: t => let '(obs, x') := step o x in censor (op_ids o) obs :: run_ops t x'
  end.

End Step.

(* ---------- decoding of the integer case format ---------- *)
Definition nat_of (n : N) : nat := N.to_nat n.

Definition dec_query (l : list N) : option (query * list N) :=
  match l with
  | 0%N :: c :: t => Some (QCls c, t)
  | 1%N :: i :: c :: t => Some (QKey {| kid := i; kcls := c |}, t)
  | _ => None
  end.

Fixpoint dec_tab (n : nat) (l : list N) : list (N * N) :=
  match n, l with
  | S n', c :: a :: t => (c, a) :: dec_tab n' t
  | _, _ => []
  end.
Fixpoint dec_items (n : nat) (l : list N) : list (key * vobj) :=
  match n, l with
  | S n', a :: b :: c :: d :: t =>
      ({| kid := a; kcls := b |}, {| vid := c; vdat := d |}) :: dec_items n' t
  | _, _ => []
  end.
Fixpoint dec_keys (n : nat) (l : list N) : list key :=
  match n, l with
  | S n', a :: b :: t => {| kid := a; kcls := b |} :: dec_keys n' t
  | _, _ => []
  end.

Definition mk (a b : N) : key := {| kid := a; kcls := b |}.
Definition mv (a b : N) : vobj := {| vid := a; vdat := b |}.

Definition decode (l : list N) : op :=
  match l with
  | [10; r; a; b; c; d]%N => if q_ok r then OInsert r (mk a b) (mv c d) else OBad
  | [11; r; a; b; c; d]%N => if q_ok r then OInsertKV r (mk a b) (mv c d) else OBad
  | [12; r; a; b; c; d]%N => if q_ok r then OCheckedInsert r (mk a b) (mv c d) else OBad
  | [13; r; a; b; c; d]%N => if q_ok r then OInsertUnchecked r (mk a b) (mv c d) else OBad
  | 20%N :: r :: t => match dec_query t with Some (q, []) => if q_ok r then OGet r q else OBad | _ => OBad end
  | 21%N :: r :: t => match dec_query t with Some (q, [d]) => if q_ok r then OGetMut r q d else OBad | _ => OBad end
  | 22%N :: r :: t => match dec_query t with Some (q, []) => if q_ok r then OGetKV r q else OBad | _ => OBad end
  | 23%N :: r :: t => match dec_query t with Some (q, []) => if q_ok r then OContains r q else OBad | _ => OBad end
  | 24%N :: r :: t => match dec_query t with Some (q, []) => if q_ok r then OIndex r q else OBad | _ => OBad end
  | 25%N :: r :: t => match dec_query t with Some (q, [d]) => if q_ok r then OIndexMut r q d else OBad | _ => OBad end
  | 30%N :: r :: t => match dec_query t with Some (q, []) => if q_ok r then ORemove r q else OBad | _ => OBad end
  | 31%N :: r :: t => match dec_query t with Some (q, []) => if q_ok r then ORemoveEntry r q else OBad | _ => OBad end
  | 32%N :: r :: dflt :: n :: t => if q_ok r then ORetain r dflt (dec_tab (nat_of n) t) else OBad
  | [33; r]%N => if q_ok r then OClear r else OBad
  | [34; r; take; fate]%N => if q_ok r then ODrain r (nat_of take) fate else OBad
  | [35; r; c]%N => if q_ok r then OWithCapacity r (nat_of c) else OBad
  | [40; r; kind; steps; wd]%N => if q_ok r then OIter r kind (nat_of steps) wd else OBad
  | [41; r; kind; take; fate]%N => if q_ok r then OIntoIter r kind (nat_of take) fate else OBad
  | [50; r; a; b; chain; c; d]%N => if q_ok r then OEntry r (mk a b) chain (mv c d) else OBad
  | 51%N :: r :: u :: wd :: n :: t =>
      if q_ok r then ODisjoint r (N.eqb u 1) (firstn (nat_of n) t) wd else OBad
  | [60; r; r']%N => if q_ok r && q_ok r' then OClone r r' else OBad
  | [61; r; r']%N => if q_ok r && q_ok r' then OEq r r' else OBad
  | 62%N :: r :: arr :: n :: t => if q_ok r then OFromIter r (N.eqb arr 1) (dec_items (nat_of n) t) else OBad
  | [64; r; style]%N => if q_ok r then OFormat r style else OBad
  | [66; r; r']%N => if q_ok r && q_ok r' then OSerde r r' else OBad
  | [67; r; r']%N => if q_ok r && q_ok r' then OCloneFrom r r' else OBad
  | [167; r; r']%N => if s_ok r && s_ok r' then SCloneFrom r r' else OBad
  | [68; r]%N => if q_ok r then ODefault r else OBad
  | [168; r]%N => if s_ok r then SDefault r else OBad
  | [42; r; kind; pre; nk]%N => if q_ok r then OIterNth r kind (nat_of pre) (nat_of nk) else OBad
  | [43; r; pre; nk]%N => if q_ok r then ODrainNth r (nat_of pre) (nat_of nk) else OBad
  | [44; r; kind; pre; nk]%N => if q_ok r then OIntoNth r kind (nat_of pre) (nat_of nk) else OBad
  | [142; r; pre; nk]%N => if s_ok r then SIterNth r (nat_of pre) (nat_of nk) else OBad
  | [143; r; pre; nk]%N => if s_ok r then SDrainNth r (nat_of pre) (nat_of nk) else OBad
  | [144; r; pre; nk]%N => if s_ok r then SIntoNth r (nat_of pre) (nat_of nk) else OBad
  | [110; r; a; b]%N => if s_ok r then SInsert r (mk a b) else OBad
  | [111; r; a; b]%N => if s_ok r then SReplace r (mk a b) else OBad
  | 123%N :: r :: t => match dec_query t with Some (q, []) => if s_ok r then SContains r q else OBad | _ => OBad end
  | 122%N :: r :: t => match dec_query t with Some (q, []) => if s_ok r then SGet r q else OBad | _ => OBad end
  | 130%N :: r :: t => match dec_query t with Some (q, []) => if s_ok r then SRemove r q else OBad | _ => OBad end
  | 131%N :: r :: t => match dec_query t with Some (q, []) => if s_ok r then STake r q else OBad | _ => OBad end
  | 132%N :: r :: dflt :: n :: t => if s_ok r then SRetain r dflt (dec_tab (nat_of n) t) else OBad
  | [133; r]%N => if s_ok r then SClear r else OBad
  | [134; r; take; fate]%N => if s_ok r then SDrain r (nat_of take) fate else OBad
  | 135%N :: r :: n :: t => if s_ok r then SExtend r (dec_keys (nat_of n) t) else OBad
  | [140; r; steps]%N => if s_ok r then SIter r (nat_of steps) else OBad
  | [141; r; take; fate]%N => if s_ok r then SIntoIter r (nat_of take) fate else OBad
  | [160; r; r']%N => if s_ok r && s_ok r' then SClone r r' else OBad
  | [161; r; r']%N => if s_ok r && s_ok r' then SEq r r' else OBad
  | 162%N :: r :: arr :: n :: t => if s_ok r then SFromIter r (N.eqb arr 1) (dec_keys (nat_of n) t) else OBad
  | [170; kind; r; r'; steps; mode]%N =>
      if s_ok r && s_ok r' then SAlgebra kind r r' (nat_of steps) mode else OBad
  | [171; kind; r; r']%N => if s_ok r && s_ok r' then SPred kind r r' else OBad
  | [172; r; r']%N => if s_ok r && s_ok r' then SSub r r' else OBad
  | [164; r; style]%N => if s_ok r then SFormat r style else OBad
  | [166; r; r']%N => if s_ok r && s_ok r' then SSerde r r' else OBad
  | _ => OBad
  end.

(* cfg segment: adv seed fk fa cap_m0 cap_m1 cap_s0 cap_s1 *)
Definition init_world (c0 c1 c2 c3 : N) : xworld :=
  {| xcb := {| n_eq := 0; n_clone := 0; n_call := 0; next_id := 100000 |};
     xm0 := new_map (nat_of c0); xm1 := new_map (nat_of c1);
     xs0 := new_map (nat_of c2); xs1 := new_map (nat_of c3);
     xdead := false |}.

Definition run_case (debug : bool) (segs : list (list N)) : list (list N) :=
  match segs with
  | [adv; seed; fk; fa; c0; c1; c2; c3]%N :: ops =>
      run_ops debug {| sc_adv := N.eqb adv 1; sc_seed := seed; sc_fk := fk; sc_fa := fa |}
              (List.map decode ops) (init_world c0 c1 c2 c3)
  | _ => [[9%N]]
  end.
