(* ========================================================================== *)
(* C01 — Map is a correct bounded dictionary: every call agrees with a
         reference model

   STATEMENT (properties.jsonl):
     "For any sequence of safe Map operations (insert, insert_key_value,
      checked_insert, get, get_mut, get_key_value, contains_key, indexing,
      remove, remove_entry, retain, clear, drain) every return value, and the
      set of key-to-value associations observable afterwards through len,
      lookups and iteration, is exactly what an ideal finite dictionary of the
      same capacity gives for that sequence. Lookups through a borrowed form of
      the key answer exactly like lookups by the key itself, and indexing
      panics exactly when the key is absent."

   QUANTIFIER (properties.jsonl):
     "all finite operation sequences, all keys and values, all capacities
      N >= 0 (including N = 0 and the full/empty boundaries), key types with
      and without a distinct borrowed form, debug and release builds"

   VOCABULARY (all defined in Proofs/Dict.v, Proofs/Spec.v, Proofs/Inv.v)
     Lawful E ck cq   the user's == is equality of the classes [ck k] / [cq q]
                      (K: stored key type, Q: borrowed form) and never panics;
                      Drop never panics.  This is what "a correct Eq/Borrow
                      implementation" means for C01.
     dict             the ideal dictionary: an association list, observed up
                      to order.  d_find = lookup by class.
     dop / dres       one constructor per operation of the property / its result
                      (RPanic = the call unwound).
     dstep ck cq n o d   THE SPECIFICATION: result and next state of the ideal
                      dictionary of capacity n (pure function; see Dict.v).
     mstep E debug o  the model of the crate's code for that call (MapOps.v);
                      DGetMut / DIndexMut also write through the reference.
     Abs ck m d       := WF m /\ Uniq ck (Spec.elems m) /\ Permutation (Spec.elems m) d
                      the container m represents the dictionary d.
     mrun / drun      results of a whole history (a panic is recorded and the
                      history continues on the unwound state); mfinal / dfinal
                      the state after it.
     Spec.elems m     the live prefix slots[0..len) as a list = what iteration
                      yields, in order.

   VOCABULARY OF THE EXTENDED HISTORIES (Proofs/Dict2.v; definitions quoted)
     Inductive dop2 :=
     | DBase (o : dop)            (* the 13 operations of Dict.v *)
     | DDrain (take : nat)        (* drain(), take [take] items, drop the drain *)
     | DIterAll                   (* iterate: observe every entry *)
     | DOrInsert (k : K) (v : V)  (* *entry(k).or_insert(v): the value now stored under k *)
     | DExtend (items : list (K * V)).  (* Extend: the insert loop over items
                                           (source iterator never panics) *)
     Inductive dres2 :=
       RBase (r : dres) | RItems (l : list (K * V)) | RValOf (v : V) | RPanic2.
     is_panic r       := match r with RPanic => true | _ => false end
     d_extend n d items : bool * dict   the fold of DInsert over the items; the
                      first overflow stops it and leaves the state reached so
                      far (flag true = all items went in):
       d_extend n d [] = (true, d)
       d_extend n d ((k, v) :: rest) =
         if is_panic (fst (dstep n (DInsert k v) d)) then (false, d)
         else d_extend n (snd (dstep n (DInsert k v) d)) rest
     THE SPECIFICATION of one step is a RELATION (the order in which drain and
     iteration yield the associations is unspecified); n is the capacity:
     Definition dstep2 (n : nat) (o : dop2) (d : dict) (r : dres2) (d' : dict) : Prop :=
       match o with
       | DBase o => d' = snd (dstep n o d) /\
                    r = if is_panic (fst (dstep n o d)) then RPanic2
                        else RBase (fst (dstep n o d))
       | DDrain take => d' = [] /\ exists p, Permutation p d /\ r = RItems (firstn take p)
       | DIterAll => d' = d /\ exists p, Permutation p d /\ r = RItems p
       | DOrInsert k v =>
           match d_find d (ck k) with
           | Some (k0, v0) => r = RValOf v0 /\ d' = d
           | None => if length d <? n then r = RValOf v /\ d' = d ++ [(k, v)]
                     else r = RPanic2 /\ d' = d
           end
       | DExtend items => d' = snd (d_extend n d items) /\
                          r = if fst (d_extend n d items) then RBase RUnit else RPanic2
       end.
     A run of the relational specification (results rs, final state):
     Inductive druns2 (n : nat) : list dop2 -> dict -> list dres2 -> dict -> Prop :=
     | druns2_nil d : druns2 n [] d [] d
     | druns2_cons o ops d r d' rs df :
         dstep2 n o d r d' -> druns2 n ops d' rs df ->
         druns2 n (o :: ops) d (r :: rs) df.
     mstep2 E debug o the model side: DBase o runs mstep; DDrain take runs
                      drain, `take` times Drain::next, then Drain::drop;
                      DIterAll runs iter to the end and dereferences every
                      yielded reference; DOrInsert runs entry_of, or_insert and
                      reads the value through the returned reference; DExtend
                      runs MapOps.extend_loop.  mrun2 / mfinal2 : results /
                      final world of a history, as mrun / mfinal.

   READING GUIDE (clause of the property -> theorem)
     "every return value ... exactly what an ideal finite dictionary of the
      same capacity gives", one call          C01_step_refines
        (Ok: same result, Abs preserved, capacity unchanged;
         Panic: the dictionary panics too, and the container is UNCHANGED;
         UB: impossible)
     ... for any sequence, from any represented state      C01_run_refines
     ... for any sequence from Map::new(), any capacity n  C01_run_refines_new
     "the set of associations observable afterwards"       C01_run_refines_state_new
        gives Abs of the final container w.r.t. the final dictionary; what Abs
        means for each observer:
          len()                                            C01_abs_len
          is_empty()                                       C01_abs_is_empty
          lookups                                          C01_abs_lookup
          iteration (each association exactly once)        C01_abs_iter
          len() <= capacity()                              C01_len_le_cap
     drain                                                 C01_drain_refines
        (the map is the empty dictionary at once; the drained range holds
         exactly the previous associations), C01_drain_run_all (running the
         drain to the end yields exactly the previous entries),
         C01_drain_empties (dropping the Drain at any point, even when an
         element's Drop panics, leaves an empty well-formed map or, if the
         checked slicing at the start panicked, the untouched one).
     drain, whole-container iteration, entry(k).or_insert(v) and extend
      INTERLEAVED with the 13 operations in one history:
        one call: never UB; a return is one of the results the ideal
          dictionary allows and the container represents the matching new
          state; a panic happens exactly where the ideal dictionary says so
          (RPanic2) and the container then represents the ideal dictionary's
          state at that point; capacity unchanged          C01_step2_refines
        any such history from any represented state: a final world exists,
          the results produced are those of SOME run of the relational
          specification, whose final state the final container represents
                                                           C01_run2_refines
        ... from Map::new(), any capacity                  C01_run2_refines_new
        the relational specification is conservative over Dict.v: a base
          operation panics in dstep2 exactly when dstep says RPanic, and then
          the dictionary is unchanged                      C01_dstep2_base_panic
          a run of base operations only is exactly drun / dfinal
                                                           C01_druns2_base
        the specification of DExtend agrees with the list machine's l_extend
          used for C03 / C16                               C01_d_extend_l_extend
     "lookups through a borrowed form ... answer exactly like lookups by the
      key"                                                 C01_borrowed_same
        (two queries of the same class: get, get_key_value, get_mut,
         contains_key, remove, remove_entry give the same answer;
         Index / IndexMut: C01_borrowed_same_index)
        a query q against a KEY k with cq q = ck k, every lookup entry point
         (get, get_mut, get_key_value, contains_key, Index, IndexMut, remove,
         remove_entry)                               C01_borrowed_as_key,
                                                     C01_borrowed_as_key_all
     the observers as operations of the model        C01_abs_len_op, C01_abs_is_empty_op,
        C01_get_abs, C01_get_deref_abs; after any history from Map::new()
                                                     C01_observers_after_history
     retain with a STATEFUL (order-dependent, possibly panicking) predicate
                                                     C01_retain_stateful, C01_l_retain_st_once,
                                                     C01_l_retain_st_pure, C01_retain_stateful_abs
        (see the AUDIT ADDENDUM at the end of this file)
     "indexing panics exactly when the key is absent"      C01_index_panics_iff_absent,
                                                           C01_index_mut_panics_iff_absent
     "debug and release builds": [debug : bool] is universally quantified.
     "all capacities N >= 0": [n : nat] is universally quantified (C01_run_refines_new).

   NOT COVERED BY A THEOREM HERE (left to the correspondence check)
     - that MapOps.v/mstep is a faithful transcription of the Rust code;
     - (closed) drain is not a constructor of [dop], but it IS a constructor of
       [dop2]: C01_run2_refines covers histories in which drain (with any
       `take`), whole-container iteration, entry(k).or_insert(v) and extend are
       interleaved with the 13 operations.  Remaining limits of dop2: a DDrain
       always drops its Drain (a forgotten Drain is C10's drain_forgotten), no
       operation is performed WHILE a drain / iterator is alive (the borrow
       checker forbids it), DIterAll iterates to the end, the entry API is
       represented by or_insert only (the other entry methods: C11), and
       DExtend's source iterator does not panic (C04);
     - DRetain (the constructor used in HISTORIES) takes a pure, non-panicking
       closure K -> V -> bool * V.  A single retain call with a stateful FnMut
       predicate (answers depending on the visit order, value rewritten, panic
       allowed) is covered by C01_retain_stateful / C01_retain_stateful_abs; what a
       panicking closure leaves behind in general environments is property C04;
     - Lawful has no clause for Clone / eqV: no operation of C01 calls them.
     - the crate has NO `impl Extend for Map`: DExtend (MapOps.extend_loop run on
       &mut self) is a model-only convenience - the loop body of the real entry
       points FromIterator / From<[(K,V);N]> (MapOps.from_iter), which build a
       fresh local map and are covered by property C16.  DExtend histories are
       therefore about a composition of inserts, not about a crate method.
     - observers after a dop2 history: C01_observers_after_history2; stateful
       retain inside histories: dop3 / C01_run3_refines (SECOND AUDIT ADDENDUM).
   ========================================================================== *)
Require Import Model.Base Model.Slots Model.MapOps Model.Exec.
Require Import Proofs.Hoare Proofs.Inv Proofs.Spec Proofs.Lawful Proofs.IterSpec Proofs.Dict
               Proofs.Bulk Proofs.Dict2 Proofs.FmtSerde Proofs.Legacy.
From Coq Require Import Permutation.

(* -------------------------------------------------------------------------- *)
(* one call                                                                   *)
Theorem C01_step_refines :
  forall (K V Q T : Type) (E : env K V Q T) (debug : bool) (ck : K -> N) (cq : Q -> N),
  Lawful E ck cq ->
  forall (n : nat) (o : @dop K V Q) (w : world K V T) (d : @dict K V),
  Abs ck (self w) d ->
  cap (self w) = n ->
  match mstep E debug o w with
  | Ok r w' => fst (dstep ck cq n o d) = r /\
               Abs ck (self w') (snd (dstep ck cq n o d)) /\
               cap (self w') = n
  | Panic w' => fst (dstep ck cq n o d) = RPanic /\
                snd (dstep ck cq n o d) = d /\
                self w' = self w
  | UB => False
  end.
Proof. exact (@step_refines). Qed.
Print Assumptions C01_step_refines.

(* any history, from any state that represents a dictionary *)
Theorem C01_run_refines :
  forall (K V Q T : Type) (E : env K V Q T) (debug : bool) (ck : K -> N) (cq : Q -> N),
  Lawful E ck cq ->
  forall (n : nat) (ops : list (@dop K V Q)) (w : world K V T) (d : @dict K V),
  Abs ck (self w) d ->
  cap (self w) = n ->
  mrun E debug ops w = drun ck cq n ops d.
Proof. exact (@run_refines). Qed.
Print Assumptions C01_run_refines.

(* any history from Map::new(), any capacity (n = 0 included) *)
Theorem C01_run_refines_new :
  forall (K V Q T : Type) (E : env K V Q T) (debug : bool) (ck : K -> N) (cq : Q -> N),
  Lawful E ck cq ->
  forall (n : nat) (ops : list (@dop K V Q)) (s : T) (lg : list event),
  mrun E debug ops {| cb := s; log := lg; self := new_map n |} = drun ck cq n ops [].
Proof. exact (@run_refines_new). Qed.
Print Assumptions C01_run_refines_new.

(* ... and the state reached: no UB on the way, the final container represents
   the final ideal dictionary, the capacity is still n *)
Theorem C01_run_refines_state_new :
  forall (K V Q T : Type) (E : env K V Q T) (debug : bool) (ck : K -> N) (cq : Q -> N),
  Lawful E ck cq ->
  forall (n : nat) (ops : list (@dop K V Q)) (s : T) (lg : list event),
  exists wf : world K V T,
    mfinal E debug ops {| cb := s; log := lg; self := new_map n |} = Some wf /\
    Abs ck (self wf) (dfinal ck cq n ops []) /\
    cap (self wf) = n.
Proof. exact (@run_refines_state_new). Qed.
Print Assumptions C01_run_refines_state_new.

(* -------------------------------------------------------------------------- *)
(* what each observer sees of a container that represents d                   *)
Theorem C01_abs_len :
  forall (K V T : Type) (ck : K -> N) (w : world K V T) (d : @dict K V),
  Abs ck (self w) d -> len (self w) = length d.
Proof. exact (@abs_len). Qed.
Print Assumptions C01_abs_len.

Theorem C01_abs_lookup :
  forall (K V Q T : Type) (ck : K -> N) (cq : Q -> N) (w : world K V T) (d : @dict K V) (q : Q),
  Abs ck (self w) d ->
  d_find ck d (cq q) = lookup ck (Spec.elems (self w)) (cq q).
Proof. exact (@abs_lookup). Qed.
Print Assumptions C01_abs_lookup.

Theorem C01_abs_iter :
  forall (K V T : Type) (ck : K -> N) (w : world K V T) (d : @dict K V),
  Abs ck (self w) d ->
  Permutation (Spec.elems (self w)) d /\
  NoDup (List.map (fun p : K * V => ck (fst p)) (Spec.elems (self w))).
Proof. exact (@abs_iter). Qed.
Print Assumptions C01_abs_iter.

Theorem C01_abs_is_empty :
  forall (K V T : Type) (ck : K -> N) (w : world K V T) (d : @dict K V),
  Abs ck (self w) d ->
  ((len (self w) =? 0) = true <-> d = []).
Proof. exact (@abs_is_empty). Qed.
Print Assumptions C01_abs_is_empty.

Theorem C01_len_le_cap :
  forall (K V T : Type) (ck : K -> N) (w : world K V T) (d : @dict K V),
  Abs ck (self w) d -> len (self w) <= cap (self w).
Proof. exact (@len_le_cap). Qed.
Print Assumptions C01_len_le_cap.

(* -------------------------------------------------------------------------- *)
(* borrowed forms; indexing                                                   *)
Theorem C01_borrowed_same :
  forall (K V Q T : Type) (E : env K V Q T) (debug : bool) (ck : K -> N) (cq : Q -> N),
  Lawful E ck cq ->
  forall (q1 q2 : Q) (w : world K V T),
  WF (self w) ->
  cq q1 = cq q2 ->
  (exists (r : option nat) (w1 w2 : world K V T),
     get E q1 w = Ok r w1 /\ get E q2 w = Ok r w2 /\ stable w w1 /\ stable w w2) /\
  (exists (r : option nat) (w1 w2 : world K V T),
     get_key_value E q1 w = Ok r w1 /\ get_key_value E q2 w = Ok r w2 /\
     stable w w1 /\ stable w w2) /\
  (exists (r : option nat) (w1 w2 : world K V T),
     get_mut E q1 w = Ok r w1 /\ get_mut E q2 w = Ok r w2 /\ stable w w1 /\ stable w w2) /\
  (exists (b : bool) (w1 w2 : world K V T),
     contains_key E q1 w = Ok b w1 /\ contains_key E q2 w = Ok b w2 /\
     stable w w1 /\ stable w w2) /\
  (exists (r : option V) (w1 w2 : world K V T),
     remove E debug q1 w = Ok r w1 /\ remove E debug q2 w = Ok r w2 /\
     Spec.elems (self w1) = Spec.elems (self w2) /\ log w1 = log w2) /\
  (exists (r : option (K * V)) (w1 w2 : world K V T),
     remove_entry E debug q1 w = Ok r w1 /\ remove_entry E debug q2 w = Ok r w2 /\
     Spec.elems (self w1) = Spec.elems (self w2) /\ log w1 = log w2).
Proof. exact (@borrowed_same). Qed.
Print Assumptions C01_borrowed_same.

Theorem C01_index_panics_iff_absent :
  forall (K V Q T : Type) (E : env K V Q T) (ck : K -> N) (cq : Q -> N),
  Lawful E ck cq ->
  forall (q : Q) (w : world K V T),
  WF (self w) ->
  ((exists w' : world K V T, index E q w = Panic w') <->
   find_idx ck (cq q) (Spec.elems (self w)) = None).
Proof. exact (@index_panics_iff_absent). Qed.
Print Assumptions C01_index_panics_iff_absent.

Theorem C01_index_mut_panics_iff_absent :
  forall (K V Q T : Type) (E : env K V Q T) (ck : K -> N) (cq : Q -> N),
  Lawful E ck cq ->
  forall (q : Q) (w : world K V T),
  WF (self w) ->
  ((exists w' : world K V T, index_mut E q w = Panic w') <->
   find_idx ck (cq q) (Spec.elems (self w)) = None).
Proof. exact (@index_mut_panics_iff_absent). Qed.
Print Assumptions C01_index_mut_panics_iff_absent.

(* -------------------------------------------------------------------------- *)
(* drain                                                                      *)
Theorem C01_drain_refines :
  forall (K V T : Type) (ck : K -> N) (w : world K V T) (d : @dict K V),
  Abs ck (self w) d ->
  wp drain
    (fun (c : cursor) (w' : world K V T) =>
       c = (0, length d) /\
       Abs ck (self w') [] /\
       cap (self w') = cap (self w) /\
       Permutation (take_live (slots (self w')) (snd c)) d)
    (fun _ : world K V T => False)
    w.
Proof. exact (@drain_refines). Qed.
Print Assumptions C01_drain_refines.

Theorem C01_drain_run_all :
  forall (K V T : Type) (w : world K V T),
  WF (self w) ->
  wp (c <- drain ;; drain_run (len (self w)) c)
    (fun (r : list (K * V) * cursor) (w' : world K V T) =>
       fst r = Spec.elems (self w) /\ cursor_len (snd r) = 0 /\ len (self w') = 0)
    (fun _ : world K V T => False)
    w.
Proof. exact (@drain_run_all). Qed.
Print Assumptions C01_drain_run_all.

Theorem C01_drain_empties :
  forall (K V Q T : Type) (E : env K V Q T) (n : nat) (w : world K V T),
  WF (self w) ->
  let post := fun w' : world K V T =>
                WF (self w') /\ len (self w') = 0 /\ cap (self w') = cap (self w) in
  wp (c <- drain ;; r <- drain_run n c ;; drain_drop E (snd r))
    (fun _ : unit => post)
    (fun w' : world K V T => post w' \/ self w' = self w)
    w.
Proof. exact (@drain_empties). Qed.
Print Assumptions C01_drain_empties.

(* -------------------------------------------------------------------------- *)
(* drain, iteration, entry and extend interleaved with the 13 operations      *)
Theorem C01_step2_refines :
  forall (K V Q T : Type) (E : env K V Q T) (debug : bool) (ck : K -> N) (cq : Q -> N),
  Lawful E ck cq ->
  forall (n : nat) (o : @dop2 K V Q) (w : world K V T) (d : @dict K V),
  Abs ck (self w) d ->
  cap (self w) = n ->
  match mstep2 E debug o w with
  | Ok r w' => exists d' : @dict K V,
                 dstep2 ck cq n o d r d' /\ Abs ck (self w') d' /\ cap (self w') = n
  | Panic w' => exists d' : @dict K V,
                  dstep2 ck cq n o d RPanic2 d' /\ Abs ck (self w') d' /\ cap (self w') = n
  | UB => False
  end.
Proof. exact (@step2_refines). Qed.
Print Assumptions C01_step2_refines.

Theorem C01_run2_refines :
  forall (K V Q T : Type) (E : env K V Q T) (debug : bool) (ck : K -> N) (cq : Q -> N),
  Lawful E ck cq ->
  forall (n : nat) (ops : list (@dop2 K V Q)) (w : world K V T) (d : @dict K V),
  Abs ck (self w) d ->
  cap (self w) = n ->
  exists (wf : world K V T) (df : @dict K V),
    mfinal2 E debug ops w = Some wf /\
    druns2 ck cq n ops d (mrun2 E debug ops w) df /\
    Abs ck (self wf) df /\
    cap (self wf) = n.
Proof. exact (@run2_refines). Qed.
Print Assumptions C01_run2_refines.

Theorem C01_run2_refines_new :
  forall (K V Q T : Type) (E : env K V Q T) (debug : bool) (ck : K -> N) (cq : Q -> N),
  Lawful E ck cq ->
  forall (n : nat) (ops : list (@dop2 K V Q)) (s : T) (lg : list event),
  let w0 := {| cb := s; log := lg; self := new_map n |} in
  exists (wf : world K V T) (df : @dict K V),
    mfinal2 E debug ops w0 = Some wf /\
    druns2 ck cq n ops [] (mrun2 E debug ops w0) df /\
    Abs ck (self wf) df /\
    cap (self wf) = n.
Proof. exact (@run2_refines_new). Qed.
Print Assumptions C01_run2_refines_new.

(* the relational specification restricted to the 13 base operations is Dict.v's *)
Theorem C01_dstep2_base_panic :
  forall (K V Q : Type) (ck : K -> N) (cq : Q -> N) (n : nat) (o : @dop K V Q)
         (d d' : @dict K V),
  dstep2 ck cq n (DBase o) d RPanic2 d' <->
  fst (dstep ck cq n o d) = RPanic /\ d' = d.
Proof. exact (@dstep2_base_panic). Qed.
Print Assumptions C01_dstep2_base_panic.

Theorem C01_druns2_base :
  forall (K V Q : Type) (ck : K -> N) (cq : Q -> N) (n : nat) (ops : list (@dop K V Q))
         (d : @dict K V) (rs : list (@dres2 K V)) (df : @dict K V),
  druns2 ck cq n (List.map DBase ops) d rs df ->
  rs = List.map (fun r : @dres K V => if is_panic r then RPanic2 else RBase r)
                (drun ck cq n ops d) /\
  df = dfinal ck cq n ops d.
Proof. exact (@druns2_base). Qed.
Print Assumptions C01_druns2_base.

(* DExtend's specification d_extend and the list machine's Bulk.l_extend agree *)
Theorem C01_d_extend_l_extend :
  forall (K V Q : Type) (ck : K -> N) (cq : Q -> N) (n : nat) (items l : list (K * V))
         (d : @dict K V),
  Uniq ck l ->
  Permutation l d ->
  match l_extend ck n l items with
  | Some res => fst (d_extend ck cq n d items) = true /\
                Uniq ck res /\
                Permutation res (snd (d_extend ck cq n d items))
  | None => fst (d_extend ck cq n d items) = false
  end.
Proof. exact (@d_extend_l_extend). Qed.
Print Assumptions C01_d_extend_l_extend.

(* -------------------------------------------------------------------------- *)
(* non-vacuity: the hypotheses are satisfiable, the conclusions say something  *)
(* a lawful environment exists: the honest scripted environment of Model/Exec.v *)
Example C01_example_lawful :
  Lawful (env_map {| sc_adv := false; sc_seed := 0; sc_fk := 0; sc_fa := 0 |}) kcls qcls.
Proof. exact (env_map_lawful {| sc_adv := false; sc_seed := 0; sc_fk := 0; sc_fa := 0 |}
                             (conj eq_refl eq_refl)). Qed.

(* a non-empty represented state: the 3-entry map m3 of Proofs/Legacy.v *)
Example C01_example_abs : Abs kcls m3 (Spec.elems m3).
Proof.
  split; [exact m3_WF|]. split; [|apply Permutation_refl].
  unfold Uniq. vm_compute.
  repeat constructor; cbn [In]; intros H;
    repeat (destruct H as [H | H]; try discriminate H); exact H.
Qed.

(* a concrete history on a capacity-1 map, release build: insert into the empty
   map, overwrite (old value returned), overflow with a second key (panic),
   the map is still usable (lookup, index of an absent key panics, remove) *)
Example C01_example_run :
  mrun (env_map {| sc_adv := false; sc_seed := 0; sc_fk := 0; sc_fa := 0 |}) false
       [DInsert (k_ 1 5) (v_ 2 7); DInsert (k_ 3 5) (v_ 4 8); DInsert (k_ 5 6) (v_ 6 9);
        DGet (QCls 5); DIndex (QCls 6); DRemove (QCls 5); DContains (QCls 5)]
       {| cb := cs0; log := []; self := new_map 1 |}
  = [RNone; RVal (v_ 2 7); RPanic; RVal (v_ 4 8); RPanic; RVal (v_ 4 8); RBool false].
Proof. vm_compute. reflexivity. Qed.

(* ... and it is what the ideal dictionary of capacity 1 answers *)
Example C01_example_drun :
  drun kcls qcls 1
       [DInsert (k_ 1 5) (v_ 2 7); DInsert (k_ 3 5) (v_ 4 8); DInsert (k_ 5 6) (v_ 6 9);
        DGet (QCls 5); DIndex (QCls 6); DRemove (QCls 5); DContains (QCls 5)]
       []
  = [RNone; RVal (v_ 2 7); RPanic; RVal (v_ 4 8); RPanic; RVal (v_ 4 8); RBool false].
Proof. vm_compute. reflexivity. Qed.

(* an interleaved history on a capacity-2 map, release build: two inserts, a
   third key overflows (panic), entry(class 6).or_insert finds the stored value,
   drain takes one entry and drops the rest (the map is empty at once), an
   iteration over the now empty map yields nothing, entry(class 6).or_insert on
   the empty map inserts its default, and a lookup sees it *)
Example C01_example_run2 :
  mrun2 (env_map {| sc_adv := false; sc_seed := 0; sc_fk := 0; sc_fa := 0 |}) false
        [DBase (DInsert (k_ 1 5) (v_ 2 7)); DBase (DInsert (k_ 3 6) (v_ 4 8));
         DBase (DInsert (k_ 5 7) (v_ 6 9));
         DOrInsert (k_ 7 6) (v_ 8 1); DDrain 1; DIterAll;
         DOrInsert (k_ 9 6) (v_ 10 2); DBase (DGet (QCls 6))]
        {| cb := cs0; log := []; self := new_map 2 |}
  = [RBase RNone; RBase RNone; RPanic2; RValOf (v_ 4 8);
     RItems [(k_ 1 5, v_ 2 7)]; RItems []; RValOf (v_ 10 2); RBase (RVal (v_ 10 2))].
Proof. vm_compute. reflexivity. Qed.

(* ========================================================================== *)
(* HISTORY LEVEL, ALL 56 OPERATIONS OF THE INTERPRETER (Proofs/ExecView.v)

   The theorems above speak about the Map methods one call at a time and about
   histories of the dictionary operations.  The theorem below speaks about the
   very function the correspondence check runs against the real crate
   ([Exec.step], one constructor per harness operation: inserts, lookups,
   removals, retain, clear, drains and consuming iterations however far they
   are taken, iterator sessions writing through iter_mut / values_mut, the 12
   entry chains, get_disjoint_mut, clone / clone_from, collect, serde round
   trips, Default, with_capacity, and the Set operations), for EVERY history:

     view_x x     the contents of the four registers as sequences of
                  (key class, value payload) -- resp. classes for the two sets --
                  in slot order, with the capacities;
     vstep o vw   THE SPECIFICATION: a pure function on such sequences with no
                  reference to the model (lists only: [pos] first position of a
                  class, [set_at], [swap_del] = move the last element into the
                  hole, append; see the 60 lines above [vstep] in
                  Proofs/ExecView.v);
     honest sc    the script makes == lawful and lets nothing panic
                  (FmtSerde.honest);
     safe_op o    o is not insert_unchecked (whose contract is a precondition,
                  see C18); unchecked get_disjoint needs its keys pairwise
                  different (its contract).

   Under an honest script the stored contents after any history are exactly
   what [vstep] computes: no operation loses, duplicates, reorders (beyond the
   swap-remove the spec spells out) or corrupts an entry, and a call that
   panics (overflow, missing index, duplicate disjoint keys) leaves the
   register as the spec says.                                                 *)
(* ========================================================================== *)
Require Import Proofs.ExecSafe Proofs.ExecUniq Proofs.ExecView Proofs.FmtSerde.

Theorem C01_history_step_view :
  forall debug sc o x,
    honest sc -> WFx x -> UniqX x -> contract2 debug o x ->
    view_x (snd (step debug sc o x)) = vstep o (view_x x).
Proof. exact step_view. Qed.
Print Assumptions C01_history_step_view.

Theorem C01_history_run_view :
  forall debug sc ops n0 n1 n2 n3,
    honest sc -> Forall safe_op ops ->
    Forall (fun o => match o with ODisjoint _ true qs _ => NoDup qs | _ => True end) ops ->
    view_x (run_final debug sc ops (init_world n0 n1 n2 n3)) =
    fold_left (fun vw o => vstep o vw) ops
      {| v0 := []; v1 := []; u2 := []; u3 := [];
         c0 := nat_of n0; c1 := nat_of n1; c2 := nat_of n2; c3 := nat_of n3 |}.
Proof. exact run_view_init. Qed.
Print Assumptions C01_history_run_view.

(* the specification on a concrete history (capacity 3 map in register 0, capacity 3
   in register 1): three inserts, a fourth key is rejected (panic, unchanged), class 5
   removed (the last entry moves into its slot), payload of class 7 rewritten through
   get_mut, entry(class 6).and_modify(+100).or_insert, register 1 := clone, retain on
   register 0 removing class 6 *)
Example C01_example_vstep :
  let ops := [OInsert 0 (mk 1 5) (mv 2 50); OInsert 0 (mk 3 6) (mv 4 60); OInsert 0 (mk 5 7) (mv 6 70);
              OInsert 0 (mk 7 8) (mv 8 80); ORemove 0 (QCls 5); OGetMut 0 (QCls 7) 71;
              OEntry 0 (mk 9 6) 4 (mv 10 0); OClone 0 1; ORetain 0 1 [(6, 0)]]%N in
  let vw := fold_left (fun vw o => vstep o vw) ops
              {| v0 := []; v1 := []; u2 := []; u3 := []; c0 := 3; c1 := 3; c2 := 0; c3 := 0 |} in
  v0 vw = [(7, 71)]%N /\ v1 vw = [(7, 71); (6, 160)]%N /\
  view_x (run_final false {| sc_adv := false; sc_seed := 0; sc_fk := 0; sc_fa := 0 |} ops (init_world 3 3 0 0)) = vw.
Proof. vm_compute. repeat split; reflexivity. Qed.

(* ========================================================================== *)
(* AUDIT ADDENDUM (Proofs/MoreDict.v): clauses of C01 that the theorems above
   covered only on the abstraction, only for two queries of the same kind, or
   only for a pure retain closure.                                            *)
(* ========================================================================== *)
Require Import Proofs.MoreDict.
Require Import Proofs.Lawful3.

(* -------------------------------------------------------------------------- *)
(* "Lookups through a borrowed form of the key answer exactly like lookups by
    the key itself."
   C01_borrowed_same compares two queries q1 q2 : Q of the same class.  The
   theorems below compare a query q with a KEY k : K.
     cq q = ck k     q is a borrowed form of k (k.borrow() == q under a lawful
                     Borrow/Eq: same equality class);
     find_idx ck (ck k) (Spec.elems (self w))
                     the slot that holds the stored key equal to k - the slot
                     the KEY-typed operations (insert k, insert_key_value k,
                     entry(k): Spec.l_insert scans for the class ck k) hit;
     l_remove ck l (ck k)   the list machine's removal of the key k.
   A key type without a distinct borrowed form is the instance Q := K, cq := ck
   (the quantifier's "key types with and without a distinct borrowed form").   *)
Theorem C01_borrowed_as_key :
  forall (K V Q T : Type) (E : env K V Q T) (ck : K -> N) (cq : Q -> N),
  Lawful E ck cq ->
  forall (q : Q) (k : K) (w : world K V T),
  WF (self w) ->
  cq q = ck k ->
  exists w1 : world K V T,
    get E q w = Ok (find_idx ck (ck k) (Spec.elems (self w))) w1 /\ stable w w1.
Proof. exact (@borrowed_as_key). Qed.
Print Assumptions C01_borrowed_as_key.

(* every lookup entry point of the property: get, get_mut, get_key_value,
   contains_key, Index, IndexMut (return the slot / panic exactly when k's class
   is absent), remove, remove_entry (result and remaining entries are those of
   removing k) *)
Theorem C01_borrowed_as_key_all :
  forall (K V Q T : Type) (E : env K V Q T) (debug : bool) (ck : K -> N) (cq : Q -> N),
  Lawful E ck cq ->
  forall (q : Q) (k : K) (w : world K V T),
  WF (self w) ->
  cq q = ck k ->
  let r := find_idx ck (ck k) (Spec.elems (self w)) in
  (exists w1 : world K V T, get E q w = Ok r w1 /\ stable w w1) /\
  (exists w1 : world K V T, get_mut E q w = Ok r w1 /\ stable w w1) /\
  (exists w1 : world K V T, get_key_value E q w = Ok r w1 /\ stable w w1) /\
  (exists w1 : world K V T,
     contains_key E q w = Ok (match r with Some _ => true | None => false end) w1 /\
     stable w w1) /\
  (exists w1 : world K V T,
     stable w w1 /\ index E q w = match r with Some i => Ok i w1 | None => Panic w1 end) /\
  (exists w1 : world K V T,
     stable w w1 /\ index_mut E q w = match r with Some i => Ok i w1 | None => Panic w1 end) /\
  (exists w1 : world K V T,
     remove E debug q w =
       Ok (option_map snd (snd (l_remove ck (Spec.elems (self w)) (ck k)))) w1 /\
     WF (self w1) /\ cap (self w1) = cap (self w) /\
     Spec.elems (self w1) = fst (l_remove ck (Spec.elems (self w)) (ck k))) /\
  (exists w1 : world K V T,
     remove_entry E debug q w = Ok (snd (l_remove ck (Spec.elems (self w)) (ck k))) w1 /\
     WF (self w1) /\ cap (self w1) = cap (self w) /\
     Spec.elems (self w1) = fst (l_remove ck (Spec.elems (self w)) (ck k)) /\
     log w1 = log w).
Proof. exact (@borrowed_as_key_all). Qed.
Print Assumptions C01_borrowed_as_key_all.

(* the Index / IndexMut conjuncts missing from C01_borrowed_same: two borrowed
   forms of the same class index the same slot, or both panic *)
Theorem C01_borrowed_same_index :
  forall (K V Q T : Type) (E : env K V Q T) (ck : K -> N) (cq : Q -> N),
  Lawful E ck cq ->
  forall (q1 q2 : Q) (w : world K V T),
  WF (self w) ->
  cq q1 = cq q2 ->
  (exists w1 w2 : world K V T, stable w w1 /\ stable w w2 /\
     match find_idx ck (cq q1) (Spec.elems (self w)) with
     | Some i => index E q1 w = Ok i w1 /\ index E q2 w = Ok i w2
     | None => index E q1 w = Panic w1 /\ index E q2 w = Panic w2
     end) /\
  (exists w1 w2 : world K V T, stable w w1 /\ stable w w2 /\
     match find_idx ck (cq q1) (Spec.elems (self w)) with
     | Some i => index_mut E q1 w = Ok i w1 /\ index_mut E q2 w = Ok i w2
     | None => index_mut E q1 w = Panic w1 /\ index_mut E q2 w = Panic w2
     end).
Proof. exact (@borrowed_same_index). Qed.
Print Assumptions C01_borrowed_same_index.

(* non-vacuity: in m3 the query QCls 6 is a borrowed form of the key object
   k_ 99 6 (a different object of the class stored in slot 1); QKey is the
   "no distinct borrowed form" query *)
Example C01_example_borrowed :
  qcls (QCls 6) = kcls (k_ 99 6) /\ qcls (QKey (k_ 99 6)) = kcls (k_ 99 6) /\
  find_idx kcls (kcls (k_ 99 6)) (Spec.elems m3) = Some 1 /\
  match get (env_map {| sc_adv := false; sc_seed := 0; sc_fk := 0; sc_fa := 0 |}) (QCls 6) (w_of m3),
        get (env_map {| sc_adv := false; sc_seed := 0; sc_fk := 0; sc_fa := 0 |}) (QKey (k_ 99 6)) (w_of m3) with
  | Ok r1 _, Ok r2 _ => r1 = Some 1 /\ r2 = Some 1
  | _, _ => False
  end.
Proof. vm_compute. repeat split; reflexivity. Qed.

(* -------------------------------------------------------------------------- *)
(* "the set of key-to-value associations observable afterwards through len,
    lookups and iteration": the observers as OPERATIONS of the model (C01_abs_len
   etc. state them on the abstraction).
     length_ / is_empty / capacity   Map::len / is_empty / capacity (MapOps.v);
     get_deref E q   := get E q, then dereference the returned reference
                        (MoreDict.v): Option<(&K,&V)> as a value.              *)
Theorem C01_abs_len_op :
  forall (K V T : Type) (ck : K -> N) (w : world K V T) (d : @dict K V),
  Abs ck (self w) d -> length_ w = Ok (length d) w.
Proof. exact (@abs_len_op). Qed.
Print Assumptions C01_abs_len_op.

Theorem C01_abs_is_empty_op :
  forall (K V T : Type) (ck : K -> N) (w : world K V T) (d : @dict K V),
  Abs ck (self w) d ->
  is_empty w = Ok (match d with [] => true | _ :: _ => false end) w.
Proof. exact (@abs_is_empty_op). Qed.
Print Assumptions C01_abs_is_empty_op.

(* get on a container that represents d returns the slot holding exactly the
   association the ideal dictionary finds (None iff it finds none) *)
Theorem C01_get_abs :
  forall (K V Q T : Type) (E : env K V Q T) (ck : K -> N) (cq : Q -> N),
  Lawful E ck cq ->
  forall (q : Q) (w : world K V T) (d : @dict K V),
  Abs ck (self w) d ->
  wp (get E q)
    (fun (r : option nat) (w' : world K V T) =>
       stable w w' /\
       match r with
       | Some i => exists p : K * V,
                     nth_error (Spec.elems (self w)) i = Some p /\ d_find ck d (cq q) = Some p
       | None => d_find ck d (cq q) = None
       end)
    (fun _ : world K V T => False) w.
Proof. exact (@get_abs). Qed.
Print Assumptions C01_get_abs.

Theorem C01_get_deref_abs :
  forall (K V Q T : Type) (E : env K V Q T) (ck : K -> N) (cq : Q -> N),
  Lawful E ck cq ->
  forall (q : Q) (w : world K V T) (d : @dict K V),
  Abs ck (self w) d ->
  wp (get_deref E q)
    (fun (r : option (K * V)) (w' : world K V T) => stable w w' /\ r = d_find ck d (cq q))
    (fun _ : world K V T => False) w.
Proof. exact (@get_deref_abs). Qed.
Print Assumptions C01_get_deref_abs.

(* after ANY history from Map::new() of ANY capacity: len(), is_empty(),
   capacity() and get(q), run on the final world, answer what the ideal dictionary
   after the same history answers; its size never exceeds the capacity *)
Theorem C01_observers_after_history :
  forall (K V Q T : Type) (E : env K V Q T) (debug : bool) (ck : K -> N) (cq : Q -> N),
  Lawful E ck cq ->
  forall (n : nat) (ops : list (@dop K V Q)) (s : T) (lg : list event),
  exists wf : world K V T,
    mfinal E debug ops {| cb := s; log := lg; self := new_map n |} = Some wf /\
    let d := dfinal ck cq n ops [] in
    length_ wf = Ok (length d) wf /\
    is_empty wf = Ok (match d with [] => true | _ :: _ => false end) wf /\
    capacity wf = Ok n wf /\
    length d <= n /\
    forall q : Q,
      wp (get_deref E q)
        (fun (r : option (K * V)) (w' : world K V T) => stable wf w' /\ r = d_find ck d (cq q))
        (fun _ : world K V T => False) wf.
Proof. exact (@observers_after_history). Qed.
Print Assumptions C01_observers_after_history.

(* -------------------------------------------------------------------------- *)
(* retain with a STATEFUL FnMut predicate (DRetain above takes a pure closure).
   f : pred_t = T -> K -> V -> (option bool * V) * T reads and updates the callback
   state, so its answers may depend on the ORDER of the visits; it may rewrite
   the value; answer None = it panics.  Definitions (Proofs/MoreDict.v):
     rcall := K * V * option bool * V   one call: key and value passed, answer,
                                        value left in the slot;
     rc_arg c  the (key, value) passed;   rc_ans c  the answer;
     rc_kept c := [(key, value left)] if the answer is Some true, else [];
     rc_events E c := EvCall 0 :: (ev_drops of the entry if the answer is Some false);
     l_retain_st E f fuel i s l : rt_out   THE TRAVERSAL SPECIFICATION, quoted:
       match nth_error l i with None => stop | Some (k, v) =>
         let '((r, v'), s1) := f s k v in let l1 := upd l i (k, v') in
         match r with
         | None       => record the call; stop with rt_ok = false, list l1, state s1
         | Some true  => record; continue at S i with s1, l1
         | Some false => record; continue at i with the state after dropK k, dropV v'
                         and swap_remove l1 i      (the last entry is visited next)
       rt_list / rt_cb / rt_log / rt_calls / rt_ok : final entries, callback state,
       events, the calls in call order, "no call panicked";
     rt_post o w ok w' := rt_ok o = ok /\ WF (self w') /\ cap (self w') = cap (self w) /\
                          Spec.elems (self w') = rt_list o /\ cb w' = rt_cb o /\
                          log w' = log w ++ rt_log o.                            *)
Theorem C01_retain_stateful :
  forall (K V Q T : Type) (E : env K V Q T) (debug : bool) (ck : K -> N) (cq : Q -> N),
  Lawful E ck cq ->
  forall (f : @pred_t K V T) (w : world K V T),
  WF (self w) ->
  wp (retain E debug f)
    (fun (_ : unit) (w' : world K V T) =>
       rt_post (l_retain_st E f (length (Spec.elems (self w))) 0 (cb w) (Spec.elems (self w)))
               w true w')
    (fun w' : world K V T =>
       rt_post (l_retain_st E f (length (Spec.elems (self w))) 0 (cb w) (Spec.elems (self w)))
               w false w')
    w.
Proof. exact (@retain_stateful). Qed.
Print Assumptions C01_retain_stateful.

(* what the traversal specification does (pure): the log is one EvCall per
   recorded call, in call order (plus the destruction of rejected entries); if no
   call panicked, the predicate was called EXACTLY ONCE on every entry (the
   arguments are a permutation of the entries, as many calls as entries) and the
   result is exactly the entries whose answer - the one actually given at that
   point of the traversal - was true, with the value the predicate left *)
Theorem C01_l_retain_st_once :
  forall (K V Q T : Type) (E : env K V Q T) (f : @pred_t K V T) (s : T) (l : list (K * V)),
  let o := l_retain_st E f (length l) 0 s l in
  rt_log o = flat_map (rc_events E) (rt_calls o) /\
  (rt_ok o = true ->
   Permutation (List.map (@rc_arg K V) (rt_calls o)) l /\
   length (rt_calls o) = length l /\
   Permutation (rt_list o) (flat_map (@rc_kept K V) (rt_calls o))).
Proof. exact (@l_retain_st_once). Qed.
Print Assumptions C01_l_retain_st_once.

(* for a state-independent, non-panicking predicate the stateful specification
   IS Lawful3.l_retain, the specification behind DRetain *)
Theorem C01_l_retain_st_pure :
  forall (K V Q T : Type) (E : env K V Q T) (f : @pred_t K V T) (g : K -> V -> bool * V),
  (forall (s : T) (k : K) (v : V), fst (f s k v) = (Some (fst (g k v)), snd (g k v))) ->
  forall (fuel i : nat) (s : T) (l : list (K * V)),
  rt_list (l_retain_st E f fuel i s l) = l_retain g fuel i l /\
  rt_ok (l_retain_st E f fuel i s l) = true.
Proof. exact (@l_retain_st_pure). Qed.
Print Assumptions C01_l_retain_st_pure.

(* dictionary level: on a container that represents d, retain(f) with a stateful
   predicate that does not panic calls f exactly once on every association of d
   and leaves a container representing the associations it answered true for;
   if a call panics the container stays well-formed with the entries reached *)
Theorem C01_retain_stateful_abs :
  forall (K V Q T : Type) (E : env K V Q T) (debug : bool) (ck : K -> N) (cq : Q -> N),
  Lawful E ck cq ->
  forall (f : @pred_t K V T) (w : world K V T) (d : @dict K V),
  Abs ck (self w) d ->
  let o := l_retain_st E f (length (Spec.elems (self w))) 0 (cb w) (Spec.elems (self w)) in
  wp (retain E debug f)
    (fun (_ : unit) (w' : world K V T) =>
       Permutation (List.map (@rc_arg K V) (rt_calls o)) d /\
       Abs ck (self w') (flat_map (@rc_kept K V) (rt_calls o)) /\
       cap (self w') = cap (self w) /\
       cb w' = rt_cb o /\
       log w' = log w ++ flat_map (rc_events E) (rt_calls o))
    (fun w' : world K V T => rt_post o w false w')
    w.
Proof. exact (@retain_stateful_abs). Qed.
Print Assumptions C01_retain_stateful_abs.

(* non-vacuity: a predicate whose answer depends on HOW MANY calls came before
   (keep on even call numbers) and that writes the call number into the value.
   On m3 (classes 5,6,7): slot 0 kept (call 0), slot 1 = class 6 rejected (call 1),
   class 7 moves into slot 1 and is visited by call 2: kept.  A pure predicate
   could not keep 5 and 7 by position; the model agrees with the specification. *)
Definition C01_alt_pred : @pred_t key vobj cstate :=
  fun s k v =>
    ((Some (N.even (n_call s)), {| vid := vid v; vdat := n_call s |}),
     {| n_eq := n_eq s; n_clone := n_clone s; n_call := n_call s + 1; next_id := next_id s |}).

Example C01_example_retain_stateful :
  let E := env_map {| sc_adv := false; sc_seed := 0; sc_fk := 0; sc_fa := 0 |} in
  let o := l_retain_st E C01_alt_pred 3 0 cs0 (Spec.elems m3) in
  rt_ok o = true /\
  rt_list o = [(k_ 1 5, v_ 2 0); (k_ 5 7, v_ 6 2)] /\
  List.map (@rc_arg key vobj) (rt_calls o) = [(k_ 1 5, v_ 2 7); (k_ 3 6, v_ 4 8); (k_ 5 7, v_ 6 9)] /\
  List.map (@rc_ans key vobj) (rt_calls o) = [Some true; Some false; Some true] /\
  rt_log o = [EvCall 0; EvCall 0; EvDrop 3; EvDrop 4; EvCall 0] /\
  match retain E false C01_alt_pred (w_of m3) with
  | Ok _ w' => Spec.elems (self w') = rt_list o /\ log w' = rt_log o /\ cb w' = rt_cb o
  | _ => False
  end.
Proof. vm_compute. repeat split; reflexivity. Qed.

(* ========================================================================== *)
(* SECOND AUDIT ADDENDUM (Proofs/MoreDict.v, second part)                     *)
(* ========================================================================== *)

(* -------------------------------------------------------------------------- *)
(* the observers as operations after an EXTENDED history (dop2: drain, whole-
   container iteration, entry(k).or_insert(v), extend interleaved with the 13
   operations).  df is the final state of the run of the relational specification
   that the model's results follow (druns2); len(), is_empty(), capacity() and
   get(q) on the final world answer what df answers.                            *)
Theorem C01_observers_after_history2 :
  forall (K V Q T : Type) (E : env K V Q T) (debug : bool) (ck : K -> N) (cq : Q -> N),
  Lawful E ck cq ->
  forall (n : nat) (ops : list (@dop2 K V Q)) (s : T) (lg : list event),
  let w0 := {| cb := s; log := lg; self := new_map n |} in
  exists (wf : world K V T) (df : @dict K V),
    mfinal2 E debug ops w0 = Some wf /\
    druns2 ck cq n ops [] (mrun2 E debug ops w0) df /\
    length_ wf = Ok (length df) wf /\
    is_empty wf = Ok (match df with [] => true | _ :: _ => false end) wf /\
    capacity wf = Ok n wf /\
    length df <= n /\
    forall q : Q,
      wp (get_deref E q)
        (fun (r : option (K * V)) (w' : world K V T) => stable wf w' /\ r = d_find ck df (cq q))
        (fun _ : world K V T => False) wf.
Proof. exact (@observers_after_history2). Qed.
Print Assumptions C01_observers_after_history2.

(* -------------------------------------------------------------------------- *)
(* retain with a stateful FnMut predicate INSIDE a history (C01_retain_stateful
   is about one call).  Definitions (Proofs/MoreDict.v), quoted:
     Inductive dop3 := D3Base (o : dop2) | D3RetainF (f : pred_t).
     Inductive dres3 := R3Base (r : dres2) | R3Unit | R3Panic.
     mstep3 E debug o := match o with
        | D3Base o => r <- mstep2 E debug o ;; ret (R3Base r)
        | D3RetainF f => retain E debug f ;; ret R3Unit end
     panic_res3 o := match o with D3Base _ => R3Base RPanic2 | D3RetainF _ => R3Panic end
     THE SPECIFICATION of one step (a relation, like dstep2):
     dstep3 E ck cq n o d r d' := match o with
        | D3Base o => exists r2, dstep2 ck cq n o d r2 d' /\ r = R3Base r2
        | D3RetainF f => exists s l, Permutation l d /\
            Permutation (rt_list (l_retain_st E f (length l) 0 s l)) d' /\
            r = if rt_ok (l_retain_st E f (length l) 0 s l) then R3Unit else R3Panic end
       i.e. retain(f) on the ideal dictionary d is the traversal specification
       l_retain_st run on SOME enumeration l of d from SOME callback state s (the
       enumeration order is unspecified, as for drain / iteration; in the model it
       is the slot order and the callback state at that moment,
       C01_step3_refines_retain); f may rewrite values and may panic (R3Panic:
       the dictionary is then what the traversal reached).  What the traversal
       does to the associations - f called exactly once on each, survivors = those
       answered true - is C01_l_retain_st_once.
     mrun3 / mfinal3 / druns3: as mrun2 / mfinal2 / druns2.                      *)
Theorem C01_step3_refines :
  forall (K V Q T : Type) (E : env K V Q T) (debug : bool) (ck : K -> N) (cq : Q -> N),
  Lawful E ck cq ->
  forall (n : nat) (o : @dop3 K V Q T) (w : world K V T) (d : @dict K V),
  Abs ck (self w) d ->
  cap (self w) = n ->
  match mstep3 E debug o w with
  | Ok r w' => exists d' : @dict K V,
                 dstep3 E ck cq n o d r d' /\ Abs ck (self w') d' /\ cap (self w') = n
  | Panic w' => exists d' : @dict K V,
                  dstep3 E ck cq n o d (panic_res3 o) d' /\ Abs ck (self w') d' /\ cap (self w') = n
  | UB => False
  end.
Proof. exact (@step3_refines). Qed.
Print Assumptions C01_step3_refines.

(* the retain step with its witnesses explicit: enumeration = slot order,
   callback state = the current one; returned or panicked, the container
   represents (and stores, in this order) what the traversal leaves *)
Theorem C01_step3_refines_retain :
  forall (K V Q T : Type) (E : env K V Q T) (debug : bool) (ck : K -> N) (cq : Q -> N),
  Lawful E ck cq ->
  forall (f : @pred_t K V T) (w : world K V T) (d : @dict K V),
  Abs ck (self w) d ->
  let o := l_retain_st E f (length (Spec.elems (self w))) 0 (cb w) (Spec.elems (self w)) in
  wp (retain E debug f)
    (fun (_ : unit) (w' : world K V T) =>
       rt_ok o = true /\ Abs ck (self w') (rt_list o) /\ Spec.elems (self w') = rt_list o /\
       cap (self w') = cap (self w) /\ cb w' = rt_cb o /\ log w' = log w ++ rt_log o)
    (fun w' : world K V T =>
       rt_ok o = false /\ Abs ck (self w') (rt_list o) /\ Spec.elems (self w') = rt_list o /\
       cap (self w') = cap (self w) /\ cb w' = rt_cb o /\ log w' = log w ++ rt_log o)
    w.
Proof. exact (@step3_refines_retain). Qed.
Print Assumptions C01_step3_refines_retain.

(* any history mixing the 13 operations, drain, iteration, entry, extend and
   retain with stateful predicates, from any represented state / from Map::new() *)
Theorem C01_run3_refines :
  forall (K V Q T : Type) (E : env K V Q T) (debug : bool) (ck : K -> N) (cq : Q -> N),
  Lawful E ck cq ->
  forall (n : nat) (ops : list (@dop3 K V Q T)) (w : world K V T) (d : @dict K V),
  Abs ck (self w) d ->
  cap (self w) = n ->
  exists (wf : world K V T) (df : @dict K V),
    mfinal3 E debug ops w = Some wf /\
    druns3 E ck cq n ops d (mrun3 E debug ops w) df /\
    Abs ck (self wf) df /\
    cap (self wf) = n.
Proof. exact (@run3_refines). Qed.
Print Assumptions C01_run3_refines.

Theorem C01_run3_refines_new :
  forall (K V Q T : Type) (E : env K V Q T) (debug : bool) (ck : K -> N) (cq : Q -> N),
  Lawful E ck cq ->
  forall (n : nat) (ops : list (@dop3 K V Q T)) (s : T) (lg : list event),
  let w0 := {| cb := s; log := lg; self := new_map n |} in
  exists (wf : world K V T) (df : @dict K V),
    mfinal3 E debug ops w0 = Some wf /\
    druns3 E ck cq n ops [] (mrun3 E debug ops w0) df /\
    Abs ck (self wf) df /\
    cap (self wf) = n.
Proof. exact (@run3_refines_new). Qed.
Print Assumptions C01_run3_refines_new.

(* the specification of D3RetainF is conservative over DRetain: for a state-
   independent, non-panicking predicate (pure closure g), whatever enumeration and
   callback state are chosen, the step returns and the new dictionary is the one
   dstep (DRetain g) computes *)
Theorem C01_dstep3_retain_pure :
  forall (K V Q T : Type) (E : env K V Q T) (ck : K -> N) (cq : Q -> N) (n : nat)
         (f : @pred_t K V T) (g : K -> V -> bool * V) (d : list (K * V))
         (r : @dres3 K V) (d' : @dict K V),
  (forall (s : T) (k : K) (v : V), fst (f s k v) = (Some (fst (g k v)), snd (g k v))) ->
  Uniq ck d ->
  dstep3 E ck cq n (D3RetainF f) d r d' ->
  r = R3Unit /\ Permutation d' (snd (dstep ck cq n (DRetain g) d)).
Proof. exact (@dstep3_retain_pure). Qed.
Print Assumptions C01_dstep3_retain_pure.

(* a history on a capacity-3 map: three inserts, retain with the order-dependent
   predicate C01_alt_pred (keep on even call numbers, write the call number into
   the value), a lookup, a second retain (its call numbers continue at 3: the
   callback state is threaded through the history), a lookup *)
Example C01_example_run3 :
  mrun3 (env_map {| sc_adv := false; sc_seed := 0; sc_fk := 0; sc_fa := 0 |}) false
        [D3Base (DBase (DInsert (k_ 1 5) (v_ 2 7))); D3Base (DBase (DInsert (k_ 3 6) (v_ 4 8)));
         D3Base (DBase (DInsert (k_ 5 7) (v_ 6 9)));
         D3RetainF C01_alt_pred; D3Base (DBase (DGet (QCls 7))); D3Base (DBase (DContains (QCls 6)));
         D3RetainF C01_alt_pred; D3Base (DBase (DGet (QCls 7))); D3Base (DBase (DContains (QCls 5)))]
        {| cb := cs0; log := []; self := new_map 3 |}
  = [R3Base (RBase RNone); R3Base (RBase RNone); R3Base (RBase RNone);
     R3Unit; R3Base (RBase (RVal (v_ 6 2))); R3Base (RBase (RBool false));
     R3Unit; R3Base (RBase (RVal (v_ 6 4))); R3Base (RBase (RBool false))].
Proof. vm_compute. reflexivity. Qed.

(* ------------------------------------------------------------------------
   HISTORIES under an operand-determined == that is no equivalence
   (Proofs/PureEqHist.v, [Related E ck cq R], R an arbitrary relation on
   classes).  There is no "ideal dictionary" for such an ==, but every history
   of insert / insert_key_value / get / contains_key / remove / remove_entry is
   still a deterministic function of a pure LIST machine ([rstep]: the first
   stored key related to the needle decides, the stored key is kept on insert,
   removal is swap-remove, insertion of an unrelated key into a full map
   panics and changes nothing) -- every result, panics included, for histories
   of any length from any well-formed state.
   ------------------------------------------------------------------------ *)
Require Import Proofs.PureEq Proofs.PureEqHist.

Theorem C01_history_any_relation :
  forall (K V Q T : Type) (E : env K V Q T) (debug : bool) (ck : K -> N) (cq : Q -> N) (R : N -> N -> bool)
         (HR : Related E ck cq R) (ops : list (@rop K V Q)) (w : world K V T),
    WF (self w) ->
    mrun_r E debug ops w = lrun_r ck cq R (cap (self w)) ops (Spec.elems (self w)).
Proof. exact (fun K V Q T E debug ck cq R HR => run_refines_rel E debug ck cq R HR). Qed.
Print Assumptions C01_history_any_relation.

Theorem C01_history_any_relation_new :
  forall (K V Q T : Type) (E : env K V Q T) (debug : bool) (ck : K -> N) (cq : Q -> N) (R : N -> N -> bool)
         (HR : Related E ck cq R) (n : nat) (ops : list (@rop K V Q)) (s : T) (lg : list event),
    mrun_r E debug ops {| cb := s; log := lg; self := new_map n |} = lrun_r ck cq R n ops [].
Proof. exact (fun K V Q T E debug ck cq R HR => run_refines_rel_new E debug ck cq R HR). Qed.
Print Assumptions C01_history_any_relation_new.

(* the interpreter's environment under the fifth kind of script is an instance (R = "<=" on classes) *)
Theorem C01_history_asym :
  forall (sc : script) (debug : bool) (ops : list (@rop key vobj query)) (w : world key vobj cstate),
    asym sc = true -> sc_fk sc = 0%N -> WF (self w) ->
    mrun_r (env_map sc) debug ops w = lrun_r kcls qcls N.leb (cap (self w)) ops (Spec.elems (self w)).
Proof. exact run_refines_asym. Qed.
Print Assumptions C01_history_asym.

(* a concrete history of the list machine under "<=" (capacity 2): overflow of an unrelated key, the stored key kept,
   first-related-wins in lookups, swap-remove *)
Theorem C01_example_history_leb :
  @lrun_r N N N (fun n : N => n) (fun n : N => n) N.leb 2
    [RInsert 5%N 10%N; RInsert 3%N 20%N; RInsert 1%N 30%N; RInsert 7%N 40%N;
     RContains 4%N; RRemoveEntry 9%N; RGet 9%N; RRemove 0%N] []
  = [ONone; ONone; OPanic; OVal 10%N; OBool true; OPair (5%N, 40%N); OSlot (Some 0); ONone].
Proof. exact hist_leb_long. Qed.
Print Assumptions C01_example_history_leb.
