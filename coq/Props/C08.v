(* ========================================================================
   C08  Set algebra yields exactly the mathematical result, without repeats

   STATEMENT (properties.jsonl):
     "For any two sets of any capacities and internal orders, union,
      intersection, difference, symmetric_difference, difference_ref and the
      '-' operator yield exactly the mathematical result with no element
      repeated, is_subset, is_superset and is_disjoint return the mathematical
      truth value, the operands are left unchanged, and intersection and
      difference yield references to the left operand's own elements. At every
      stage of consumption each lazy iterator's size_hint brackets the number
      of items it will still yield, and fold gives the same result as stepping
      with next."
   QUANTIFIER:
     "all pairs of sets (all subsets of a universe in all internal orders, all
      capacity pairs, including empty and equal sets) and every prefix length
      of consumption"

   VOCABULARY
     a, b : map K unit     the two operands (Set<T,N> is a wrapper of Map<T,(),N>);
                           they are PARAMETERS of the model functions (shared
                           borrows), so no model function can change them.
     E                     the user callbacks; `Lawful E ck cq` = "== is equality
                           of the classes ck/cq and never panics, Drop never panics".
     WF a                  len a <= cap a and slots [0,len a) initialised.
     Spec.elems a          the stored items of a, in slot order.
     Uniq ck l             no two items of l have the same class (a set holds
                           no two equal items).
     mem ck b k            "b holds an item equal to k" (pure).
     sel ck a b want lo n  the slots i in [lo, lo+n) of a with (mem b a[i]) = want.
     cursor (lo,hi)        state of a borrowing iterator: still to visit [lo,hi).
     chain                 core::iter::Chain of two cursors; items of the chained
                           adaptors are tagged (false,i)/(true,i) = slot i of the
                           first/second operand of the chain.
     filter_run/union_run/symdiff_run (defined in Proofs/Algebra*.v, NOT in the
                           model): "call next() `fuel` times, collect the items".
     stable w w'           self w' = self w /\ log w' = log w: the surrounding
                           container and the event log (drops, clones) untouched.
     Every wp below has panic-postcondition False: no panic, and (by the
     definition of wp) no UB.

   READING GUIDE (clause -> theorem)
   * difference / difference_ref / intersection yield exactly the mathematical
     result, nothing repeated, as references to the LEFT operand's own items:
       C08_contains_in_lawful        other.contains(item) is `mem`
       C08_filter_next_lawful        one next(): first matching slot of a, new cursor
       C08_filter_run_lawful         stepping to exhaustion yields exactly sel ... (slots OF a)
       C08_filter_run_steps          every prefix length j of consumption: firstn j
       C08_sel_elems                 those slots hold exactly filter (mem b = want) (elems a)
       C08_difference_spec, C08_intersection_spec
                                     that filter is duplicate-free and is {x in a | x notin/in b}
       C08_difference_lawful (extra) the constructor returns the cursor (0, len a)
     (difference_ref is the same adaptor in the crate; the model has one.)
   * union / symmetric_difference:
       C08_union_lawful, C08_symdiff_lawful (extra: constructors return union_init/symdiff_init)
       C08_union_run_lawful, C08_symdiff_run_lawful   items yielded when stepping to exhaustion
       C08_union_elems, C08_symdiff_elems             the pairs those items designate
       C08_union_spec, C08_symdiff_spec               duplicate-free; classes = a U b / a (+) b
     (union_items/symdiff_items unfold to the expression written in
      C08_union_run_lawful / C08_symdiff_run_lawful.)
   * the '-' operator:  C08_set_sub_lawful  (result set = clones of a \ b in
     order, one clone per item, capacity of the left operand).
   * is_subset / is_superset / is_disjoint return the mathematical truth value:
       C08_is_subset_lawful + C08_subset_truth, C08_is_superset_lawful (+ subset_truth
       with the operands exchanged), C08_is_disjoint_lawful + C08_disjoint_truth.
   * operands unchanged: a and b are parameters of pure functions and are not
     returned; `stable w w'` in every theorem says nothing else is touched.
     (Structural only; the contentful statement, on the interpreter's
     registers, is C08_algebra_ops_keep_registers at the end of this file.)
   * size_hint brackets the number of items still to come, at every stage:
       C08_diff_hint_brackets, C08_inter_hint_brackets, C08_union_hint_brackets,
       C08_symdiff_hint_brackets — for EVERY cursor/chain inside the operand
       (hypotheses fst c <= snd c <= len a, chain_ok); the bracketed number is
       the length of the list the *_run_lawful theorems say will be yielded.
   * fold gives the same result as stepping with next:
       C08_filter_fold_lawful, C08_diff_run_is_fold, C08_inter_run_is_fold,
       C08_union_fold_lawful, C08_symdiff_fold_lawful, C08_union_run_is_fold,
       C08_symdiff_run_is_fold (from every cursor/chain, i.e. also after a prefix
       has been consumed).

   PARTLY / NOT COVERED BY A THEOREM (left to the correspondence check)
   * "every stage of consumption": the theorems quantify over all cursors /
     chains satisfying the range hypotheses.  That the states reached by
     repeated next() satisfy them follows from the `snd r = ...` clause of
     C08_filter_next_lawful for Difference/Intersection, but for Union /
     SymmetricDifference the preservation of chain_ok is proved only in
     Safety3 (union_next_frame / symdiff_next_frame, every environment) and is
     not restated here.  CLOSED in the AUDIT CLOSURE section at the end of this
     file: C08_union_next_lawful / C08_symdiff_next_lawful, every prefix length
     C08_union_run_steps / C08_symdiff_run_steps, and the hint taken from the
     state reached after j calls of next(): C08_*_hint_stage.
   * `mem`, "mathematical result" and Uniq are all relative to the class
     function ck: for a lawful == this is ordinary set membership.
   * Everything here assumes `Lawful E ck cq`; what happens with unlawful
     ==/panicking callbacks is C17/C04 (Safety3: memory safety only).
   * That the Rust iterators are the state machines of Model/SetOps.v (e.g.
     that Union really is other.iter().chain(self.difference(other))) is the
     correspondence check's business.
   ======================================================================== *)
Require Import Model.Base Model.Slots Model.MapOps Model.SetOps Model.Exec.
Require Import Proofs.Hoare Proofs.Inv Proofs.Safety3 Proofs.Spec Proofs.Lawful
               Proofs.Algebra Proofs.Algebra2 Proofs.FmtSerde.
From Coq Require Import Permutation.

(* ---------------------------------------------------------------------- *)
(* Difference / Intersection                                               *)
(* ---------------------------------------------------------------------- *)

Theorem C08_contains_in_lawful :
  forall (K Q T : Type) (E : env K unit Q T) (ck : K -> N) (cq : Q -> N) (HL : Lawful E ck cq)
         (b : map K unit) (k : K) (w : world K unit T),
    WF b ->
    wp (contains_in E b k)
       (fun (r : bool) (w' : world K unit T) => stable w w' /\ r = mem ck b k)
       (fun _ : world K unit T => False) w.
Proof. exact (fun K Q T E ck cq HL => contains_in_lawful E ck cq HL). Qed.
Print Assumptions C08_contains_in_lawful.

Theorem C08_filter_fold_lawful :
  forall (K Q T : Type) (E : env K unit Q T) (ck : K -> N) (cq : Q -> N) (HL : Lawful E ck cq)
         (a b : map K unit) (want : bool) (n lo : nat) (acc : list nat) (w : world K unit T),
    WF a -> WF b -> lo + n <= len a ->
    wp (filter_fold E a b want n lo acc)
       (fun (r : list nat) (w' : world K unit T) => stable w w' /\ r = acc ++ sel ck a b want lo n)
       (fun _ : world K unit T => False) w.
Proof. exact (fun K Q T E ck cq HL => filter_fold_lawful E ck cq HL). Qed.
Print Assumptions C08_filter_fold_lawful.

Theorem C08_filter_next_lawful :
  forall (K Q T : Type) (E : env K unit Q T) (ck : K -> N) (cq : Q -> N) (HL : Lawful E ck cq)
         (a b : map K unit) (want : bool) (n lo : nat) (w : world K unit T),
    WF a -> WF b -> lo + n <= len a ->
    wp (filter_next E a b want n lo)
       (fun (r : option nat * cursor) (w' : world K unit T) =>
          stable w w' /\
          fst r = hd_error (sel ck a b want lo n) /\
          snd r = match hd_error (sel ck a b want lo n) with
                  | Some i => (S i, lo + n)
                  | None => (lo + n, lo + n)
                  end)
       (fun _ : world K unit T => False) w.
Proof. exact (fun K Q T E ck cq HL => filter_next_lawful E ck cq HL). Qed.
Print Assumptions C08_filter_next_lawful.

Theorem C08_filter_run_lawful :
  forall (K Q T : Type) (E : env K unit Q T) (ck : K -> N) (cq : Q -> N) (HL : Lawful E ck cq)
         (a b : map K unit) (want : bool) (c : cursor) (w : world K unit T),
    WF a -> WF b -> fst c <= snd c -> snd c <= len a ->
    wp (filter_run E a b want (S (cursor_len c)) c)
       (fun (r : list nat) (w' : world K unit T) =>
          stable w w' /\ r = sel ck a b want (fst c) (cursor_len c))
       (fun _ : world K unit T => False) w.
Proof. exact (fun K Q T E ck cq HL => filter_run_lawful E ck cq HL). Qed.
Print Assumptions C08_filter_run_lawful.

Theorem C08_filter_run_steps :
  forall (K Q T : Type) (E : env K unit Q T) (ck : K -> N) (cq : Q -> N) (HL : Lawful E ck cq)
         (a b : map K unit) (want : bool) (j : nat) (c : cursor) (w : world K unit T),
    WF a -> WF b -> fst c <= snd c -> snd c <= len a ->
    wp (filter_run E a b want j c)
       (fun (r : list nat) (w' : world K unit T) =>
          stable w w' /\ r = firstn j (sel ck a b want (fst c) (cursor_len c)))
       (fun _ : world K unit T => False) w.
Proof. exact (fun K Q T E ck cq HL => filter_run_steps E ck cq HL). Qed.
Print Assumptions C08_filter_run_steps.

Theorem C08_sel_elems :
  forall (K : Type) (ck : K -> N) (a b : map K unit) (want : bool),
    WF a ->
    List.map (fun i : nat => nth_error (Spec.elems a) i) (sel ck a b want 0 (len a)) =
    List.map Some (filter (fun p : K * unit => Bool.eqb (mem ck b (fst p)) want) (Spec.elems a)).
Proof. exact (fun K ck => sel_elems ck). Qed.
Print Assumptions C08_sel_elems.

Theorem C08_difference_spec :
  forall (K : Type) (ck : K -> N) (a b : map K unit),
    WF a -> Uniq ck (Spec.elems a) ->
    let res := filter (fun p : K * unit => negb (mem ck b (fst p))) (Spec.elems a) in
    Uniq ck res /\
    (forall p : K * unit, In p res <-> In p (Spec.elems a) /\ mem ck b (fst p) = false).
Proof. exact (fun K ck => difference_spec ck). Qed.
Print Assumptions C08_difference_spec.

Theorem C08_intersection_spec :
  forall (K : Type) (ck : K -> N) (a b : map K unit),
    WF a -> Uniq ck (Spec.elems a) ->
    let res := filter (fun p : K * unit => mem ck b (fst p)) (Spec.elems a) in
    Uniq ck res /\
    (forall p : K * unit, In p res <-> In p (Spec.elems a) /\ mem ck b (fst p) = true).
Proof. exact (fun K ck => intersection_spec ck). Qed.
Print Assumptions C08_intersection_spec.

Theorem C08_diff_hint_brackets :
  forall (K : Type) (ck : K -> N) (a b : map K unit) (c : cursor),
    WF a -> WF b -> Uniq ck (Spec.elems a) -> Uniq ck (Spec.elems b) ->
    fst c <= snd c -> snd c <= len a ->
    fst (diff_size_hint b c) <= length (sel ck a b false (fst c) (cursor_len c))
                             <= snd (diff_size_hint b c).
Proof. exact (fun K ck => diff_hint_brackets ck). Qed.
Print Assumptions C08_diff_hint_brackets.

Theorem C08_inter_hint_brackets :
  forall (K : Type) (ck : K -> N) (a b : map K unit) (c : cursor),
    WF a -> WF b -> Uniq ck (Spec.elems a) -> Uniq ck (Spec.elems b) ->
    fst c <= snd c -> snd c <= len a ->
    fst (inter_size_hint b c) <= length (sel ck a b true (fst c) (cursor_len c))
                              <= snd (inter_size_hint b c).
Proof. exact (fun K ck => inter_hint_brackets ck). Qed.
Print Assumptions C08_inter_hint_brackets.

Theorem C08_diff_run_is_fold :
  forall (K Q T : Type) (E : env K unit Q T) (ck : K -> N) (cq : Q -> N) (HL : Lawful E ck cq)
         (a b : map K unit) (c : cursor) (w1 w2 : world K unit T),
    WF a -> WF b -> fst c <= snd c -> snd c <= len a ->
    wp (filter_run E a b false (S (cursor_len c)) c)
       (fun (r : list nat) (_ : world K unit T) =>
          wp (diff_fold E a b c [])
             (fun (r' : list nat) (_ : world K unit T) => r' = r)
             (fun _ : world K unit T => False) w2)
       (fun _ : world K unit T => False) w1.
Proof. exact (fun K Q T E ck cq HL => diff_run_is_fold E ck cq HL). Qed.
Print Assumptions C08_diff_run_is_fold.

Theorem C08_inter_run_is_fold :
  forall (K Q T : Type) (E : env K unit Q T) (ck : K -> N) (cq : Q -> N) (HL : Lawful E ck cq)
         (a b : map K unit) (c : cursor) (w1 w2 : world K unit T),
    WF a -> WF b -> fst c <= snd c -> snd c <= len a ->
    wp (filter_run E a b true (S (cursor_len c)) c)
       (fun (r : list nat) (_ : world K unit T) =>
          wp (inter_fold E a b c [])
             (fun (r' : list nat) (_ : world K unit T) => r' = r)
             (fun _ : world K unit T => False) w2)
       (fun _ : world K unit T => False) w1.
Proof. exact (fun K Q T E ck cq HL => inter_run_is_fold E ck cq HL). Qed.
Print Assumptions C08_inter_run_is_fold.

(* ---------------------------------------------------------------------- *)
(* is_subset / is_superset / is_disjoint                                   *)
(* ---------------------------------------------------------------------- *)

Theorem C08_is_subset_lawful :
  forall (K Q T : Type) (E : env K unit Q T) (ck : K -> N) (cq : Q -> N) (HL : Lawful E ck cq)
         (a b : map K unit) (w : world K unit T),
    WF a -> WF b ->
    wp (is_subset E a b)
       (fun (r : bool) (w' : world K unit T) =>
          stable w w' /\
          r = (len a <=? len b) && forallb (fun p : K * unit => mem ck b (fst p)) (Spec.elems a))
       (fun _ : world K unit T => False) w.
Proof. exact (fun K Q T E ck cq HL => is_subset_lawful E ck cq HL). Qed.
Print Assumptions C08_is_subset_lawful.

Theorem C08_is_disjoint_lawful :
  forall (K Q T : Type) (E : env K unit Q T) (ck : K -> N) (cq : Q -> N) (HL : Lawful E ck cq)
         (a b : map K unit) (w : world K unit T),
    WF a -> WF b ->
    wp (is_disjoint E a b)
       (fun (r : bool) (w' : world K unit T) =>
          stable w w' /\
          r = (if len a <=? len b
               then forallb (fun p : K * unit => negb (mem ck b (fst p))) (Spec.elems a)
               else forallb (fun p : K * unit => negb (mem ck a (fst p))) (Spec.elems b)))
       (fun _ : world K unit T => False) w.
Proof. exact (fun K Q T E ck cq HL => is_disjoint_lawful E ck cq HL). Qed.
Print Assumptions C08_is_disjoint_lawful.

Theorem C08_is_superset_lawful :
  forall (K Q T : Type) (E : env K unit Q T) (ck : K -> N) (cq : Q -> N) (HL : Lawful E ck cq)
         (a b : map K unit) (w : world K unit T),
    WF a -> WF b ->
    wp (is_superset E a b)
       (fun (r : bool) (w' : world K unit T) =>
          stable w w' /\
          r = (len b <=? len a) && forallb (fun p : K * unit => mem ck a (fst p)) (Spec.elems b))
       (fun _ : world K unit T => False) w.
Proof. exact (fun K Q T E ck cq HL => is_superset_lawful E ck cq HL). Qed.
Print Assumptions C08_is_superset_lawful.

Theorem C08_subset_truth :
  forall (K : Type) (ck : K -> N) (a b : map K unit),
    WF a -> WF b -> Uniq ck (Spec.elems a) -> Uniq ck (Spec.elems b) ->
    ((len a <=? len b) && forallb (fun p : K * unit => mem ck b (fst p)) (Spec.elems a) = true
     <-> (forall p : K * unit, In p (Spec.elems a) -> mem ck b (fst p) = true)).
Proof. exact (fun K ck => subset_truth ck). Qed.
Print Assumptions C08_subset_truth.

Theorem C08_disjoint_truth :
  forall (K : Type) (ck : K -> N) (a b : map K unit),
    WF a -> WF b -> Uniq ck (Spec.elems a) -> Uniq ck (Spec.elems b) ->
    ((if len a <=? len b
      then forallb (fun p : K * unit => negb (mem ck b (fst p))) (Spec.elems a)
      else forallb (fun p : K * unit => negb (mem ck a (fst p))) (Spec.elems b)) = true
     <-> (forall p : K * unit, In p (Spec.elems a) -> mem ck b (fst p) = false)).
Proof. exact (fun K ck => disjoint_truth ck). Qed.
Print Assumptions C08_disjoint_truth.

(* ---------------------------------------------------------------------- *)
(* Union / SymmetricDifference (Algebra2)                                  *)
(* ---------------------------------------------------------------------- *)

Theorem C08_union_fold_lawful :
  forall (K Q T : Type) (E : env K unit Q T) (ck : K -> N) (cq : Q -> N) (HL : Lawful E ck cq)
         (a b : map K unit) (u : chain) (w : world K unit T),
    WF a -> WF b -> chain_ok (len b) (len a) u ->
    wp (union_fold E a b u)
       (fun (r : list (bool * nat)) (w' : world K unit T) =>
          stable w w' /\
          r = match front u with
              | Some c => List.map (fun i : nat => (true, i)) (seq (fst c) (cursor_len c))
              | None => []
              end
              ++ List.map (fun i : nat => (false, i))
                          (sel ck a b false (fst (back u)) (cursor_len (back u))))
       (fun _ : world K unit T => False) w.
Proof. exact (fun K Q T E ck cq HL => union_fold_lawful E ck cq HL). Qed.
Print Assumptions C08_union_fold_lawful.

Theorem C08_union_run_lawful :
  forall (K Q T : Type) (E : env K unit Q T) (ck : K -> N) (cq : Q -> N) (HL : Lawful E ck cq)
         (a b : map K unit) (u : chain) (w : world K unit T),
    WF a -> WF b -> chain_ok (len b) (len a) u ->
    wp (union_run E a b
          (S (S (match front u with Some c => cursor_len c | None => 0 end + cursor_len (back u)))) u)
       (fun (r : list (bool * nat)) (w' : world K unit T) =>
          stable w w' /\
          r = match front u with
              | Some c => List.map (fun i : nat => (true, i)) (seq (fst c) (cursor_len c))
              | None => []
              end
              ++ List.map (fun i : nat => (false, i))
                          (sel ck a b false (fst (back u)) (cursor_len (back u))))
       (fun _ : world K unit T => False) w.
Proof. exact (fun K Q T E ck cq HL => union_run_lawful E ck cq HL). Qed.
Print Assumptions C08_union_run_lawful.

Theorem C08_symdiff_fold_lawful :
  forall (K Q T : Type) (E : env K unit Q T) (ck : K -> N) (cq : Q -> N) (HL : Lawful E ck cq)
         (a b : map K unit) (u : chain) (w : world K unit T),
    WF a -> WF b -> chain_ok (len a) (len b) u ->
    wp (symdiff_fold E a b u)
       (fun (r : list (bool * nat)) (w' : world K unit T) =>
          stable w w' /\
          r = match front u with
              | Some c => List.map (fun i : nat => (false, i)) (sel ck a b false (fst c) (cursor_len c))
              | None => []
              end
              ++ List.map (fun i : nat => (true, i))
                          (sel ck b a false (fst (back u)) (cursor_len (back u))))
       (fun _ : world K unit T => False) w.
Proof. exact (fun K Q T E ck cq HL => symdiff_fold_lawful E ck cq HL). Qed.
Print Assumptions C08_symdiff_fold_lawful.

Theorem C08_symdiff_run_lawful :
  forall (K Q T : Type) (E : env K unit Q T) (ck : K -> N) (cq : Q -> N) (HL : Lawful E ck cq)
         (a b : map K unit) (u : chain) (w : world K unit T),
    WF a -> WF b -> chain_ok (len a) (len b) u ->
    wp (symdiff_run E a b
          (S (S (match front u with Some c => cursor_len c | None => 0 end + cursor_len (back u)))) u)
       (fun (r : list (bool * nat)) (w' : world K unit T) =>
          stable w w' /\
          r = match front u with
              | Some c => List.map (fun i : nat => (false, i)) (sel ck a b false (fst c) (cursor_len c))
              | None => []
              end
              ++ List.map (fun i : nat => (true, i))
                          (sel ck b a false (fst (back u)) (cursor_len (back u))))
       (fun _ : world K unit T => False) w.
Proof. exact (fun K Q T E ck cq HL => symdiff_run_lawful E ck cq HL). Qed.
Print Assumptions C08_symdiff_run_lawful.

Theorem C08_union_spec :
  forall (K : Type) (ck : K -> N) (a b : map K unit),
    WF a -> WF b -> Uniq ck (Spec.elems a) -> Uniq ck (Spec.elems b) ->
    let res := Spec.elems b ++ filter (fun p : K * unit => negb (mem ck b (fst p))) (Spec.elems a) in
    Uniq ck res /\
    (forall c : N,
        In c (List.map (fun p : K * unit => ck (fst p)) res) <->
        In c (List.map (fun p : K * unit => ck (fst p)) (Spec.elems a)) \/
        In c (List.map (fun p : K * unit => ck (fst p)) (Spec.elems b))).
Proof. exact (fun K ck => union_spec ck). Qed.
Print Assumptions C08_union_spec.

Theorem C08_union_elems :
  forall (K : Type) (ck : K -> N) (a b : map K unit),
    WF a -> WF b ->
    List.map (item_pair a b) (union_items ck a b (union_init a b)) =
    List.map Some (Spec.elems b ++ filter (fun p : K * unit => negb (mem ck b (fst p))) (Spec.elems a)).
Proof. exact (fun K ck => union_elems ck). Qed.
Print Assumptions C08_union_elems.

Theorem C08_symdiff_spec :
  forall (K : Type) (ck : K -> N) (a b : map K unit),
    WF a -> WF b -> Uniq ck (Spec.elems a) -> Uniq ck (Spec.elems b) ->
    let res := filter (fun p : K * unit => negb (mem ck b (fst p))) (Spec.elems a) ++
               filter (fun p : K * unit => negb (mem ck a (fst p))) (Spec.elems b) in
    Uniq ck res /\
    (forall c : N,
        In c (List.map (fun p : K * unit => ck (fst p)) res) <->
        In c (List.map (fun p : K * unit => ck (fst p)) (Spec.elems a)) /\
        ~ In c (List.map (fun p : K * unit => ck (fst p)) (Spec.elems b)) \/
        In c (List.map (fun p : K * unit => ck (fst p)) (Spec.elems b)) /\
        ~ In c (List.map (fun p : K * unit => ck (fst p)) (Spec.elems a))).
Proof. exact (fun K ck => symdiff_spec ck). Qed.
Print Assumptions C08_symdiff_spec.

Theorem C08_symdiff_elems :
  forall (K : Type) (ck : K -> N) (a b : map K unit),
    WF a -> WF b ->
    List.map (item_pair a b) (symdiff_items ck a b (symdiff_init a b)) =
    List.map Some
      (filter (fun p : K * unit => negb (mem ck b (fst p))) (Spec.elems a) ++
       filter (fun p : K * unit => negb (mem ck a (fst p))) (Spec.elems b)).
Proof. exact (fun K ck => symdiff_elems ck). Qed.
Print Assumptions C08_symdiff_elems.

Theorem C08_union_hint_brackets :
  forall (K : Type) (ck : K -> N) (a b : map K unit) (u : chain),
    WF a -> WF b -> Uniq ck (Spec.elems a) -> Uniq ck (Spec.elems b) ->
    chain_ok (len b) (len a) u ->
    let n := length
               (match front u with
                | Some c => List.map (fun i : nat => (true, i)) (seq (fst c) (cursor_len c))
                | None => []
                end
                ++ List.map (fun i : nat => (false, i))
                            (sel ck a b false (fst (back u)) (cursor_len (back u)))) in
    fst (union_size_hint b u) <= n <= snd (union_size_hint b u).
Proof. exact (fun K ck => union_hint_brackets ck). Qed.
Print Assumptions C08_union_hint_brackets.

Theorem C08_symdiff_hint_brackets :
  forall (K : Type) (ck : K -> N) (a b : map K unit) (u : chain),
    WF a -> WF b -> Uniq ck (Spec.elems a) -> Uniq ck (Spec.elems b) ->
    chain_ok (len a) (len b) u ->
    let n := length
               (match front u with
                | Some c => List.map (fun i : nat => (false, i)) (sel ck a b false (fst c) (cursor_len c))
                | None => []
                end
                ++ List.map (fun i : nat => (true, i))
                            (sel ck b a false (fst (back u)) (cursor_len (back u)))) in
    fst (symdiff_size_hint a b u) <= n <= snd (symdiff_size_hint a b u).
Proof. exact (fun K ck => symdiff_hint_brackets ck). Qed.
Print Assumptions C08_symdiff_hint_brackets.

Theorem C08_union_run_is_fold :
  forall (K Q T : Type) (E : env K unit Q T) (ck : K -> N) (cq : Q -> N) (HL : Lawful E ck cq)
         (a b : map K unit) (u : chain) (w1 w2 : world K unit T),
    WF a -> WF b -> chain_ok (len b) (len a) u ->
    wp (union_run E a b
          (S (S (match front u with Some c => cursor_len c | None => 0 end + cursor_len (back u)))) u)
       (fun (r : list (bool * nat)) (_ : world K unit T) =>
          wp (union_fold E a b u)
             (fun (r' : list (bool * nat)) (_ : world K unit T) => r' = r)
             (fun _ : world K unit T => False) w2)
       (fun _ : world K unit T => False) w1.
Proof. exact (fun K Q T E ck cq HL => union_run_is_fold E ck cq HL). Qed.
Print Assumptions C08_union_run_is_fold.

Theorem C08_symdiff_run_is_fold :
  forall (K Q T : Type) (E : env K unit Q T) (ck : K -> N) (cq : Q -> N) (HL : Lawful E ck cq)
         (a b : map K unit) (u : chain) (w1 w2 : world K unit T),
    WF a -> WF b -> chain_ok (len a) (len b) u ->
    wp (symdiff_run E a b
          (S (S (match front u with Some c => cursor_len c | None => 0 end + cursor_len (back u)))) u)
       (fun (r : list (bool * nat)) (_ : world K unit T) =>
          wp (symdiff_fold E a b u)
             (fun (r' : list (bool * nat)) (_ : world K unit T) => r' = r)
             (fun _ : world K unit T => False) w2)
       (fun _ : world K unit T => False) w1.
Proof. exact (fun K Q T E ck cq HL => symdiff_run_is_fold E ck cq HL). Qed.
Print Assumptions C08_symdiff_run_is_fold.

(* ---------------------------------------------------------------------- *)
(* the '-' operator: &a - &b, run with self = Set::new() of a's capacity    *)
(* (HCK: Clone yields a key of the same class and does not panic)           *)
(* ---------------------------------------------------------------------- *)

Theorem C08_set_sub_lawful :
  forall (K Q T : Type) (E : env K unit Q T) (debug : bool) (ck : K -> N) (cq : Q -> N)
         (HL : Lawful E ck cq)
         (HCK : forall (s : T) (k : K), exists (k' : K) (s' : T),
                   cloneK E s k = (Some k', s') /\ ck k' = ck k)
         (a b : map K unit) (w : world K unit T),
    WF a -> WF b -> Uniq ck (Spec.elems a) ->
    WF (self w) -> len (self w) = 0 -> cap (self w) = cap a ->
    wp (set_sub E debug a b)
       (fun (_ : unit) (w' : world K unit T) =>
          WF (self w') /\
          cap (self w') = cap a /\
          List.map (fun p : K * unit => ck (fst p)) (Spec.elems (self w')) =
          List.map (fun p : K * unit => ck (fst p))
                   (filter (fun p : K * unit => negb (mem ck b (fst p))) (Spec.elems a)) /\
          (exists evs : list event,
              log w' = log w ++ evs /\
              evs = flat_map (fun p : K * unit => List.map EvCloneK (idK E (fst p)))
                             (filter (fun p : K * unit => negb (mem ck b (fst p))) (Spec.elems a)) /\
              length (filter (fun e : event => match e with EvCloneK _ => true | _ => false end) evs) =
              list_sum (List.map (fun p : K * unit => length (idK E (fst p)))
                                 (filter (fun p : K * unit => negb (mem ck b (fst p))) (Spec.elems a)))))
       (fun _ : world K unit T => False) w.
Proof. exact (fun K Q T E debug ck cq HL HCK => set_sub_lawful E debug ck cq HL HCK). Qed.
Print Assumptions C08_set_sub_lawful.

(* ---------------------------------------------------------------------- *)
(* extra (not in the PROPS_MAP list): the constructors, which tie           *)
(* `difference a`, `union a b`, `symmetric_difference a b` to the cursors / *)
(* chains the theorems above start from                                     *)
(* ---------------------------------------------------------------------- *)

Theorem C08_difference_lawful :
  forall (K T : Type) (a : map K unit) (w : world K unit T),
    WF a ->
    wp (difference a)
       (fun (c : cursor) (w' : world K unit T) => stable w w' /\ c = (0, len a))
       (fun _ : world K unit T => False) w.
Proof. exact (fun K T => @difference_lawful K T). Qed.
Print Assumptions C08_difference_lawful.

Theorem C08_union_lawful :
  forall (K T : Type) (a b : map K unit) (w : world K unit T),
    WF a -> WF b ->
    wp (union a b)
       (fun (u : chain) (w' : world K unit T) =>
          stable w w' /\ u = union_init a b /\ chain_ok (len b) (len a) u)
       (fun _ : world K unit T => False) w.
Proof. exact (fun K T => @union_lawful K T). Qed.
Print Assumptions C08_union_lawful.

Theorem C08_symdiff_lawful :
  forall (K T : Type) (a b : map K unit) (w : world K unit T),
    WF a -> WF b ->
    wp (symdiff a b)
       (fun (u : chain) (w' : world K unit T) =>
          stable w w' /\ u = symdiff_init a b /\ chain_ok (len a) (len b) u)
       (fun _ : world K unit T => False) w.
Proof. exact (fun K T => @symdiff_lawful K T). Qed.
Print Assumptions C08_symdiff_lawful.

(* ---------------------------------------------------------------------- *)
(* non-vacuity                                                              *)
(* ---------------------------------------------------------------------- *)

(* the hypotheses are satisfiable: a = {5,6,7} (capacity 4), b = {7,9,5}
   (capacity 3, other internal order), honest script *)
Example C08_example_hyps :
  let a : map key unit :=
    {| len := 3; slots := [Some ({| kid := 1; kcls := 5 |}, tt); Some ({| kid := 2; kcls := 6 |}, tt);
                           Some ({| kid := 3; kcls := 7 |}, tt); None] |} in
  let b : map key unit :=
    {| len := 3; slots := [Some ({| kid := 4; kcls := 7 |}, tt); Some ({| kid := 5; kcls := 9 |}, tt);
                           Some ({| kid := 6; kcls := 5 |}, tt)] |} in
  let sc0 := {| sc_adv := false; sc_seed := 0; sc_fk := 0; sc_fa := 0 |} in
  WF a /\ WF b /\ Uniq kcls (Spec.elems a) /\ Uniq kcls (Spec.elems b) /\
  honest sc0 /\ Lawful (env_set sc0) kcls qcls /\
  chain_ok (len b) (len a) (union_init a b) /\ chain_ok (len a) (len b) (symdiff_init a b).
Proof.
  intros a b sc0.
  assert (Ha : WF a).
  { split; [cbn; lia|]. intros i Hi. cbn [len a] in Hi.
    destruct i as [|[|[|i]]]; try lia; eexists; reflexivity. }
  assert (Hb : WF b).
  { split; [cbn; lia|]. intros i Hi. cbn [len b] in Hi.
    destruct i as [|[|[|i]]]; try lia; eexists; reflexivity. }
  assert (Hh : honest sc0) by (split; reflexivity).
  split; [exact Ha|]. split; [exact Hb|].
  split; [vm_compute; repeat constructor; cbn; intuition discriminate|].
  split; [vm_compute; repeat constructor; cbn; intuition discriminate|].
  split; [exact Hh|]. split; [exact (env_set_lawful sc0 Hh)|].
  split; vm_compute; repeat split; lia.
Qed.

(* concrete runs on those operands: a \ b = slot 1 of a (class 6); a n b =
   slots 0,2 of a; union = b's three slots then slot 1 of a; symmetric
   difference = slot 1 of a then slot 1 of b (class 9); fold agrees; operands
   and log untouched (the final world differs only in the == counter) *)
Example C08_example_runs :
  let a : map key unit :=
    {| len := 3; slots := [Some ({| kid := 1; kcls := 5 |}, tt); Some ({| kid := 2; kcls := 6 |}, tt);
                           Some ({| kid := 3; kcls := 7 |}, tt); None] |} in
  let b : map key unit :=
    {| len := 3; slots := [Some ({| kid := 4; kcls := 7 |}, tt); Some ({| kid := 5; kcls := 9 |}, tt);
                           Some ({| kid := 6; kcls := 5 |}, tt)] |} in
  let E := env_set {| sc_adv := false; sc_seed := 0; sc_fk := 0; sc_fa := 0 |} in
  let w : world key unit cstate :=
    {| cb := {| n_eq := 0; n_clone := 0; n_call := 0; next_id := 100 |}; log := []; self := new_map 0 |} in
  let out {A} (r : res key unit cstate A) : option (A * list event * map key unit) :=
    match r with Ok x w' => Some (x, log w', self w') | _ => None end in
  out (filter_run E a b false 4 (0, 3) w) = Some ([1], [], new_map 0) /\
  out (diff_fold E a b (0, 3) [] w) = Some ([1], [], new_map 0) /\
  out (filter_run E a b true 4 (0, 3) w) = Some ([0; 2], [], new_map 0) /\
  out (union_run E a b 8 (union_init a b) w)
    = Some ([(true, 0); (true, 1); (true, 2); (false, 1)], [], new_map 0) /\
  out (union_fold E a b (union_init a b) w)
    = Some ([(true, 0); (true, 1); (true, 2); (false, 1)], [], new_map 0) /\
  out (symdiff_run E a b 8 (symdiff_init a b) w) = Some ([(false, 1); (true, 1)], [], new_map 0) /\
  diff_size_hint b (0, 3) = (0, 3) /\ union_size_hint b (union_init a b) = (3, 6) /\
  out (is_subset E a b w) = Some (false, [], new_map 0) /\
  out (is_disjoint E a b w) = Some (false, [], new_map 0).
Proof. vm_compute. repeat split; reflexivity. Qed.

(* ======================================================================== *)
(* AUDIT CLOSURE (Proofs/MoreSet.v)

   VOCABULARY ADDED
     nsteps next j s        "call next() j times, whatever it answers; return the items yielded
                            and THE STATE THE ITERATOR IS LEFT IN" (C08_nsteps_unfold).  Unlike
                            filter_run / union_run / symdiff_run it does not stop at the first None
                            and does not forget the state, so a size_hint can be taken afterwards.
     filter_steps / union_steps / symdiff_steps   nsteps of the model's own next functions
                            (C08_alg_steps_unfold).
     filter_fold_gen F, siter_fold_gen F, union_fold_gen F, symdiff_fold_gen F
                            the loops of filter_fold / siter_fold / union_fold / symdiff_fold
                            (Model/SetOps.v) with an ARBITRARY accumulator function F in place of
                            the closure "push the slot" the model's folds are specialised to
                            (C08_fold_gen_unfold).  Tie to the model's folds at F = push:
                            C08_filter_fold_is_gen / C08_siter_fold_is_gen are equations of
                            computations; C08_union_fold_is_gen / C08_symdiff_fold_is_gen are only
                            result-equalities under Lawful from unrelated start worlds — the
                            EQUATIONS for them (every environment, every world) are
                            C08_union_fold_eq_gen / C08_symdiff_fold_eq_gen in the SECOND AUDIT
                            CLOSURE section at the end of this file.  F is a PURE function
                            A -> item -> A: stateful or panicking fold closures are outside these
                            statements (the interpreter's fate-2 sessions exercise a panicking
                            closure, for safety only).

   4. "every prefix length of consumption" for Union / SymmetricDifference:
        C08_union_next_lawful, C08_symdiff_next_lawful   one next(): yields the head of the pending
                            list, the new chain is inside the operands (chain_ok) and its
                            pending list is the tail;
        C08_union_run_steps, C08_symdiff_run_steps   EVERY fuel j: the first j pending items
                            (the counterpart of C08_filter_run_steps), from every chain inside the
                            operands — in particular (C08_*_run_steps_init) from the chain the
                            constructor returns.
   5. size_hint "at every stage of consumption": after j calls of next() from any state inside the
      operands, the hint computed FROM THE STATE THE MODEL'S next() LEFT brackets the number of items
      still to come, i.e. (total - j) (natural subtraction: 0 once exhausted):
        C08_diff_hint_stage, C08_inter_hint_stage, C08_union_hint_stage, C08_symdiff_hint_stage
      (the conjunct `sel/items (snd r) = skipn j ...` says the pending list of the state reached is the
       rest; C08_filter_steps_lawful is the underlying "state after j steps" fact.)
   6. '-' operator: C08_set_sub_lawful_uniq adds: the result holds no two elements of one class
      (NoDup), its classes are exactly those of a that are not classes of b, and the log grows by
      exactly the clone events.
   7. "the operands are left unchanged".  In the per-function theorems this is STRUCTURAL: a and b
      are parameters of the model functions (shared borrows) and are not returned, so nothing could
      change them; what those theorems do say is `stable w w'`: the surrounding container `self` and
      the event log are untouched — no drop, no clone event — by every iterator step, fold and
      predicate.  The contentful statement is at the level of the interpreter (Model/Exec.v), where
      the operands live in registers:
        C08_algebra_ops_keep_registers   SAlgebra (any adaptor, any number of steps, fold), SPred,
                            SSub leave all four registers EXACTLY as they were, for every script
                            (adversarial ==, panicking Clone/Drop included); only the callback state
                            advances;
        C08_algebra_ops_view   the ExecView instance: view after the step = vstep = the view before.
   8. fold for an arbitrary pure accumulator function F and initial value:
        C08_filter_fold_gen_lawful, C08_union_fold_gen_lawful, C08_symdiff_fold_gen_lawful
                            fold F init = fold_left F (pending items) init
        C08_filter_fold_gen_is_run, C08_union_fold_gen_is_run, C08_symdiff_fold_gen_is_run
                            = fold_left F (the items stepping with next() yields) init.
   9. Non-vacuity of HCK and a concrete '-' run: C08_example_HCK, C08_example_set_sub.        *)
(* ======================================================================== *)
Require Import Proofs.ExecSafe Proofs.ExecView Proofs.MoreSet.

Theorem C08_nsteps_unfold :
  forall (K T X St : Type) (next : St -> M K unit T (option X * St)),
    (forall s : St, nsteps next 0 s = ret ([], s)) /\
    (forall (j : nat) (s : St),
        nsteps next (S j) s =
        (x <- next s ;;
         r <- nsteps next j (snd x) ;;
         ret ((match fst x with Some it => [it] | None => [] end) ++ fst r, snd r))).
Proof. exact (@nsteps_unfold). Qed.
Print Assumptions C08_nsteps_unfold.

Theorem C08_alg_steps_unfold :
  forall (K Q T : Type) (E : env K unit Q T) (a b : map K unit) (want : bool),
    filter_steps E a b want = nsteps (fun c : cursor => filter_next E a b want (cursor_len c) (fst c)) /\
    union_steps E a b = nsteps (union_next E a b) /\
    symdiff_steps E a b = nsteps (symdiff_next E a b).
Proof. exact (@alg_steps_unfold). Qed.
Print Assumptions C08_alg_steps_unfold.

(* ---------------------------------------------------------------------- *)
(* 4. Union / SymmetricDifference: one step, every prefix length            *)
(* ---------------------------------------------------------------------- *)

Theorem C08_union_next_lawful :
  forall (K Q T : Type) (E : env K unit Q T) (ck : K -> N) (cq : Q -> N) (HL : Lawful E ck cq)
         (a b : map K unit) (u : chain) (w : world K unit T),
    WF a -> WF b -> chain_ok (len b) (len a) u ->
    wp (union_next E a b u)
       (fun (x : option (bool * nat) * chain) (w' : world K unit T) =>
          stable w w' /\
          chain_ok (len b) (len a) (snd x) /\
          fst x = hd_error (union_items ck a b u) /\
          union_items ck a b (snd x) = tl (union_items ck a b u))
       (fun _ : world K unit T => False) w.
Proof. exact (fun K Q T E ck cq HL => union_next_lawful E ck cq HL). Qed.
Print Assumptions C08_union_next_lawful.

Theorem C08_symdiff_next_lawful :
  forall (K Q T : Type) (E : env K unit Q T) (ck : K -> N) (cq : Q -> N) (HL : Lawful E ck cq)
         (a b : map K unit) (u : chain) (w : world K unit T),
    WF a -> WF b -> chain_ok (len a) (len b) u ->
    wp (symdiff_next E a b u)
       (fun (x : option (bool * nat) * chain) (w' : world K unit T) =>
          stable w w' /\
          chain_ok (len a) (len b) (snd x) /\
          fst x = hd_error (symdiff_items ck a b u) /\
          symdiff_items ck a b (snd x) = tl (symdiff_items ck a b u))
       (fun _ : world K unit T => False) w.
Proof. exact (fun K Q T E ck cq HL => symdiff_next_lawful E ck cq HL). Qed.
Print Assumptions C08_symdiff_next_lawful.

Theorem C08_union_run_steps :
  forall (K Q T : Type) (E : env K unit Q T) (ck : K -> N) (cq : Q -> N) (HL : Lawful E ck cq)
         (a b : map K unit) (j : nat) (u : chain) (w : world K unit T),
    WF a -> WF b -> chain_ok (len b) (len a) u ->
    wp (union_run E a b j u)
       (fun (r : list (bool * nat)) (w' : world K unit T) =>
          stable w w' /\ r = firstn j (union_items ck a b u))
       (fun _ : world K unit T => False) w.
Proof. exact (fun K Q T E ck cq HL => union_run_steps E ck cq HL). Qed.
Print Assumptions C08_union_run_steps.

Theorem C08_symdiff_run_steps :
  forall (K Q T : Type) (E : env K unit Q T) (ck : K -> N) (cq : Q -> N) (HL : Lawful E ck cq)
         (a b : map K unit) (j : nat) (u : chain) (w : world K unit T),
    WF a -> WF b -> chain_ok (len a) (len b) u ->
    wp (symdiff_run E a b j u)
       (fun (r : list (bool * nat)) (w' : world K unit T) =>
          stable w w' /\ r = firstn j (symdiff_items ck a b u))
       (fun _ : world K unit T => False) w.
Proof. exact (fun K Q T E ck cq HL => symdiff_run_steps E ck cq HL). Qed.
Print Assumptions C08_symdiff_run_steps.

Theorem C08_union_run_steps_init :
  forall (K Q T : Type) (E : env K unit Q T) (ck : K -> N) (cq : Q -> N) (HL : Lawful E ck cq)
         (a b : map K unit) (j : nat) (w : world K unit T),
    WF a -> WF b ->
    wp (union_run E a b j (union_init a b))
       (fun (r : list (bool * nat)) (w' : world K unit T) =>
          stable w w' /\ r = firstn j (union_items ck a b (union_init a b)))
       (fun _ : world K unit T => False) w.
Proof. exact (fun K Q T E ck cq HL => union_run_steps_init E ck cq HL). Qed.
Print Assumptions C08_union_run_steps_init.

Theorem C08_symdiff_run_steps_init :
  forall (K Q T : Type) (E : env K unit Q T) (ck : K -> N) (cq : Q -> N) (HL : Lawful E ck cq)
         (a b : map K unit) (j : nat) (w : world K unit T),
    WF a -> WF b ->
    wp (symdiff_run E a b j (symdiff_init a b))
       (fun (r : list (bool * nat)) (w' : world K unit T) =>
          stable w w' /\ r = firstn j (symdiff_items ck a b (symdiff_init a b)))
       (fun _ : world K unit T => False) w.
Proof. exact (fun K Q T E ck cq HL => symdiff_run_steps_init E ck cq HL). Qed.
Print Assumptions C08_symdiff_run_steps_init.

(* ---------------------------------------------------------------------- *)
(* 5. size_hint at every stage                                              *)
(* ---------------------------------------------------------------------- *)

Theorem C08_filter_steps_lawful :
  forall (K Q T : Type) (E : env K unit Q T) (ck : K -> N) (cq : Q -> N) (HL : Lawful E ck cq)
         (a b : map K unit) (want : bool) (j : nat) (c : cursor) (w : world K unit T),
    WF a -> WF b -> (fst c <= snd c /\ snd c <= len a) ->
    wp (filter_steps E a b want j c)
       (fun (r : list nat * cursor) (w' : world K unit T) =>
          stable w w' /\
          (fst (snd r) <= snd (snd r) /\ snd (snd r) <= len a) /\
          fst r = firstn j (sel ck a b want (fst c) (cursor_len c)) /\
          sel ck a b want (fst (snd r)) (cursor_len (snd r)) =
          skipn j (sel ck a b want (fst c) (cursor_len c)))
       (fun _ : world K unit T => False) w.
Proof. exact (fun K Q T E ck cq HL => filter_steps_lawful E ck cq HL). Qed.
Print Assumptions C08_filter_steps_lawful.

Theorem C08_diff_hint_stage :
  forall (K Q T : Type) (E : env K unit Q T) (ck : K -> N) (cq : Q -> N) (HL : Lawful E ck cq)
         (a b : map K unit) (j : nat) (c : cursor) (w : world K unit T),
    WF a -> WF b -> Uniq ck (Spec.elems a) -> Uniq ck (Spec.elems b) ->
    (fst c <= snd c /\ snd c <= len a) ->
    wp (filter_steps E a b false j c)
       (fun (r : list nat * cursor) (w' : world K unit T) =>
          stable w w' /\
          fst r = firstn j (sel ck a b false (fst c) (cursor_len c)) /\
          sel ck a b false (fst (snd r)) (cursor_len (snd r)) =
          skipn j (sel ck a b false (fst c) (cursor_len c)) /\
          fst (diff_size_hint b (snd r))
            <= length (sel ck a b false (fst c) (cursor_len c)) - j
            <= snd (diff_size_hint b (snd r)))
       (fun _ : world K unit T => False) w.
Proof. exact (fun K Q T E ck cq HL => diff_hint_stage E ck cq HL). Qed.
Print Assumptions C08_diff_hint_stage.

Theorem C08_inter_hint_stage :
  forall (K Q T : Type) (E : env K unit Q T) (ck : K -> N) (cq : Q -> N) (HL : Lawful E ck cq)
         (a b : map K unit) (j : nat) (c : cursor) (w : world K unit T),
    WF a -> WF b -> Uniq ck (Spec.elems a) -> Uniq ck (Spec.elems b) ->
    (fst c <= snd c /\ snd c <= len a) ->
    wp (filter_steps E a b true j c)
       (fun (r : list nat * cursor) (w' : world K unit T) =>
          stable w w' /\
          fst r = firstn j (sel ck a b true (fst c) (cursor_len c)) /\
          sel ck a b true (fst (snd r)) (cursor_len (snd r)) =
          skipn j (sel ck a b true (fst c) (cursor_len c)) /\
          fst (inter_size_hint b (snd r))
            <= length (sel ck a b true (fst c) (cursor_len c)) - j
            <= snd (inter_size_hint b (snd r)))
       (fun _ : world K unit T => False) w.
Proof. exact (fun K Q T E ck cq HL => inter_hint_stage E ck cq HL). Qed.
Print Assumptions C08_inter_hint_stage.

Theorem C08_union_hint_stage :
  forall (K Q T : Type) (E : env K unit Q T) (ck : K -> N) (cq : Q -> N) (HL : Lawful E ck cq)
         (a b : map K unit) (j : nat) (u : chain) (w : world K unit T),
    WF a -> WF b -> Uniq ck (Spec.elems a) -> Uniq ck (Spec.elems b) ->
    chain_ok (len b) (len a) u ->
    wp (union_steps E a b j u)
       (fun (r : list (bool * nat) * chain) (w' : world K unit T) =>
          stable w w' /\
          fst r = firstn j (union_items ck a b u) /\
          union_items ck a b (snd r) = skipn j (union_items ck a b u) /\
          fst (union_size_hint b (snd r))
            <= length (union_items ck a b u) - j
            <= snd (union_size_hint b (snd r)))
       (fun _ : world K unit T => False) w.
Proof. exact (fun K Q T E ck cq HL => union_hint_stage E ck cq HL). Qed.
Print Assumptions C08_union_hint_stage.

Theorem C08_symdiff_hint_stage :
  forall (K Q T : Type) (E : env K unit Q T) (ck : K -> N) (cq : Q -> N) (HL : Lawful E ck cq)
         (a b : map K unit) (j : nat) (u : chain) (w : world K unit T),
    WF a -> WF b -> Uniq ck (Spec.elems a) -> Uniq ck (Spec.elems b) ->
    chain_ok (len a) (len b) u ->
    wp (symdiff_steps E a b j u)
       (fun (r : list (bool * nat) * chain) (w' : world K unit T) =>
          stable w w' /\
          fst r = firstn j (symdiff_items ck a b u) /\
          symdiff_items ck a b (snd r) = skipn j (symdiff_items ck a b u) /\
          fst (symdiff_size_hint a b (snd r))
            <= length (symdiff_items ck a b u) - j
            <= snd (symdiff_size_hint a b (snd r)))
       (fun _ : world K unit T => False) w.
Proof. exact (fun K Q T E ck cq HL => symdiff_hint_stage E ck cq HL). Qed.
Print Assumptions C08_symdiff_hint_stage.

(* ---------------------------------------------------------------------- *)
(* 6. '-' operator: no element repeated                                     *)
(* (HCK: Clone yields a key of the same class and does not panic;           *)
(*  satisfiable: C08_example_HCK)                                           *)
(* ---------------------------------------------------------------------- *)

Theorem C08_set_sub_lawful_uniq :
  forall (K Q T : Type) (E : env K unit Q T) (debug : bool) (ck : K -> N) (cq : Q -> N)
         (HL : Lawful E ck cq)
         (HCK : forall (s : T) (k : K), exists (k' : K) (s' : T),
                   cloneK E s k = (Some k', s') /\ ck k' = ck k)
         (a b : map K unit) (w : world K unit T),
    WF a -> WF b -> Uniq ck (Spec.elems a) ->
    WF (self w) -> len (self w) = 0 -> cap (self w) = cap a ->
    wp (set_sub E debug a b)
       (fun (_ : unit) (w' : world K unit T) =>
          WF (self w') /\
          cap (self w') = cap a /\
          List.map (fun p : K * unit => ck (fst p)) (Spec.elems (self w')) =
          List.map (fun p : K * unit => ck (fst p))
                   (filter (fun p : K * unit => negb (mem ck b (fst p))) (Spec.elems a)) /\
          NoDup (List.map (fun p : K * unit => ck (fst p)) (Spec.elems (self w'))) /\
          (forall c : N,
              In c (List.map (fun p : K * unit => ck (fst p)) (Spec.elems (self w'))) <->
              In c (List.map (fun p : K * unit => ck (fst p)) (Spec.elems a)) /\
              ~ In c (List.map (fun p : K * unit => ck (fst p)) (Spec.elems b))) /\
          log w' =
          log w ++ flat_map (fun p : K * unit => List.map EvCloneK (idK E (fst p)))
                            (filter (fun p : K * unit => negb (mem ck b (fst p))) (Spec.elems a)))
       (fun _ : world K unit T => False) w.
Proof. exact (fun K Q T E debug ck cq HL HCK => set_sub_lawful_uniq E debug ck cq HL HCK). Qed.
Print Assumptions C08_set_sub_lawful_uniq.

(* ---------------------------------------------------------------------- *)
(* 7. operands unchanged, at the level of the interpreter                   *)
(*    regs x = (xm0 x, xm1 x, xs0 x, xs1 x): the four registers;            *)
(*    WFx x: the four registers are well-formed and no UB has happened.     *)
(* ---------------------------------------------------------------------- *)

Theorem C08_algebra_ops_keep_registers :
  forall (debug : bool) (sc : script) (o : op) (x : xworld),
    WFx x ->
    match o with SAlgebra _ _ _ _ _ | SPred _ _ _ | SSub _ _ => True | _ => False end ->
    (xm0 (snd (step debug sc o x)), xm1 (snd (step debug sc o x)),
     xs0 (snd (step debug sc o x)), xs1 (snd (step debug sc o x))) = (xm0 x, xm1 x, xs0 x, xs1 x) /\
    xdead (snd (step debug sc o x)) = false.
Proof. exact algebra_ops_keep_registers. Qed.
Print Assumptions C08_algebra_ops_keep_registers.

Theorem C08_algebra_ops_view :
  forall (debug : bool) (sc : script) (o : op) (x : xworld),
    WFx x ->
    match o with SAlgebra _ _ _ _ _ | SPred _ _ _ | SSub _ _ => True | _ => False end ->
    view_x (snd (step debug sc o x)) = vstep o (view_x x) /\ vstep o (view_x x) = view_x x.
Proof. exact (fun debug sc o x Hx Ho => conj (algebra_ops_view debug sc o x Hx Ho) (vstep_algebra_id o _ Ho)). Qed.
Print Assumptions C08_algebra_ops_view.

(* ---------------------------------------------------------------------- *)
(* 8. fold with an arbitrary accumulator function                           *)
(* ---------------------------------------------------------------------- *)

Theorem C08_fold_gen_unfold :
  forall (K Q T : Type) (E : env K unit Q T) (A : Type) (F : A -> nat -> A) (G : A -> bool * nat -> A)
         (a b : map K unit) (want : bool),
    (forall (lo : nat) (acc : A), filter_fold_gen E F a b want 0 lo acc = ret acc) /\
    (forall (n lo : nat) (acc : A),
        filter_fold_gen E F a b want (S n) lo acc =
        match nth_error (slots a) lo with
        | Some (Some (k, _)) =>
            inb <- contains_in E b k ;;
            filter_fold_gen E F a b want n (S lo) (if Bool.eqb inb want then F acc lo else acc)
        | _ => ub
        end) /\
    (forall (lo : nat) (acc : A), siter_fold_gen (T := T) F b 0 lo acc = ret acc) /\
    (forall (n lo : nat) (acc : A),
        siter_fold_gen (T := T) F b (S n) lo acc =
        match nth_error (slots b) lo with
        | Some (Some _) => siter_fold_gen F b n (S lo) (F acc lo)
        | _ => ub
        end) /\
    (forall (u : chain) (init : A),
        union_fold_gen E G a b u init =
        (acc <- match front u with
                | Some c => siter_fold_gen (fun x i => G x (true, i)) b (cursor_len c) (fst c) init
                | None => ret init
                end ;;
         filter_fold_gen E (fun x i => G x (false, i)) a b false (cursor_len (back u)) (fst (back u)) acc)) /\
    (forall (u : chain) (init : A),
        symdiff_fold_gen E G a b u init =
        (acc <- match front u with
                | Some c => filter_fold_gen E (fun x i => G x (false, i)) a b false (cursor_len c) (fst c) init
                | None => ret init
                end ;;
         filter_fold_gen E (fun x i => G x (true, i)) b a false (cursor_len (back u)) (fst (back u)) acc)).
Proof. exact (fun K Q T E A => @fold_gen_unfold K Q T E A). Qed.
Print Assumptions C08_fold_gen_unfold.

Theorem C08_filter_fold_is_gen :
  forall (K Q T : Type) (E : env K unit Q T) (a b : map K unit) (want : bool) (n lo : nat)
         (acc : list nat) (w : world K unit T),
    filter_fold E a b want n lo acc w =
    filter_fold_gen E (fun (x : list nat) (i : nat) => x ++ [i]) a b want n lo acc w.
Proof. exact (@filter_fold_is_gen). Qed.
Print Assumptions C08_filter_fold_is_gen.

Theorem C08_union_fold_is_gen :
  forall (K Q T : Type) (E : env K unit Q T) (ck : K -> N) (cq : Q -> N) (HL : Lawful E ck cq)
         (a b : map K unit) (u : chain) (w1 w2 : world K unit T),
    WF a -> WF b -> chain_ok (len b) (len a) u ->
    wp (union_fold E a b u)
       (fun (r : list (bool * nat)) (_ : world K unit T) =>
          wp (union_fold_gen E (fun (x : list (bool * nat)) (it : bool * nat) => x ++ [it]) a b u [])
             (fun (r' : list (bool * nat)) (_ : world K unit T) => r' = r)
             (fun _ : world K unit T => False) w2)
       (fun _ : world K unit T => False) w1.
Proof. exact (fun K Q T E ck cq HL => union_fold_is_gen E ck cq HL). Qed.
Print Assumptions C08_union_fold_is_gen.

Theorem C08_symdiff_fold_is_gen :
  forall (K Q T : Type) (E : env K unit Q T) (ck : K -> N) (cq : Q -> N) (HL : Lawful E ck cq)
         (a b : map K unit) (u : chain) (w1 w2 : world K unit T),
    WF a -> WF b -> chain_ok (len a) (len b) u ->
    wp (symdiff_fold E a b u)
       (fun (r : list (bool * nat)) (_ : world K unit T) =>
          wp (symdiff_fold_gen E (fun (x : list (bool * nat)) (it : bool * nat) => x ++ [it]) a b u [])
             (fun (r' : list (bool * nat)) (_ : world K unit T) => r' = r)
             (fun _ : world K unit T => False) w2)
       (fun _ : world K unit T => False) w1.
Proof. exact (fun K Q T E ck cq HL => symdiff_fold_is_gen E ck cq HL). Qed.
Print Assumptions C08_symdiff_fold_is_gen.

Theorem C08_filter_fold_gen_lawful :
  forall (K Q T : Type) (E : env K unit Q T) (ck : K -> N) (cq : Q -> N) (HL : Lawful E ck cq)
         (A : Type) (F : A -> nat -> A) (a b : map K unit) (want : bool) (n lo : nat) (acc : A)
         (w : world K unit T),
    WF a -> WF b -> lo + n <= len a ->
    wp (filter_fold_gen E F a b want n lo acc)
       (fun (r : A) (w' : world K unit T) => stable w w' /\ r = fold_left F (sel ck a b want lo n) acc)
       (fun _ : world K unit T => False) w.
Proof. exact (fun K Q T E ck cq HL A => filter_fold_gen_lawful E ck cq HL (A := A)). Qed.
Print Assumptions C08_filter_fold_gen_lawful.

Theorem C08_union_fold_gen_lawful :
  forall (K Q T : Type) (E : env K unit Q T) (ck : K -> N) (cq : Q -> N) (HL : Lawful E ck cq)
         (A : Type) (F : A -> bool * nat -> A) (a b : map K unit) (u : chain) (init : A)
         (w : world K unit T),
    WF a -> WF b -> chain_ok (len b) (len a) u ->
    wp (union_fold_gen E F a b u init)
       (fun (r : A) (w' : world K unit T) => stable w w' /\ r = fold_left F (union_items ck a b u) init)
       (fun _ : world K unit T => False) w.
Proof. exact (fun K Q T E ck cq HL A => union_fold_gen_lawful E ck cq HL (A := A)). Qed.
Print Assumptions C08_union_fold_gen_lawful.

Theorem C08_symdiff_fold_gen_lawful :
  forall (K Q T : Type) (E : env K unit Q T) (ck : K -> N) (cq : Q -> N) (HL : Lawful E ck cq)
         (A : Type) (F : A -> bool * nat -> A) (a b : map K unit) (u : chain) (init : A)
         (w : world K unit T),
    WF a -> WF b -> chain_ok (len a) (len b) u ->
    wp (symdiff_fold_gen E F a b u init)
       (fun (r : A) (w' : world K unit T) => stable w w' /\ r = fold_left F (symdiff_items ck a b u) init)
       (fun _ : world K unit T => False) w.
Proof. exact (fun K Q T E ck cq HL A => symdiff_fold_gen_lawful E ck cq HL (A := A)). Qed.
Print Assumptions C08_symdiff_fold_gen_lawful.

Theorem C08_filter_fold_gen_is_run :
  forall (K Q T : Type) (E : env K unit Q T) (ck : K -> N) (cq : Q -> N) (HL : Lawful E ck cq)
         (A : Type) (F : A -> nat -> A) (a b : map K unit) (want : bool) (c : cursor) (init : A)
         (w1 w2 : world K unit T),
    WF a -> WF b -> fst c <= snd c -> snd c <= len a ->
    wp (filter_run E a b want (S (cursor_len c)) c)
       (fun (r : list nat) (_ : world K unit T) =>
          wp (filter_fold_gen E F a b want (cursor_len c) (fst c) init)
             (fun (r' : A) (_ : world K unit T) => r' = fold_left F r init)
             (fun _ : world K unit T => False) w2)
       (fun _ : world K unit T => False) w1.
Proof. exact (fun K Q T E ck cq HL A => filter_fold_gen_is_run E ck cq HL (A := A)). Qed.
Print Assumptions C08_filter_fold_gen_is_run.

Theorem C08_union_fold_gen_is_run :
  forall (K Q T : Type) (E : env K unit Q T) (ck : K -> N) (cq : Q -> N) (HL : Lawful E ck cq)
         (A : Type) (F : A -> bool * nat -> A) (a b : map K unit) (u : chain) (init : A)
         (w1 w2 : world K unit T),
    WF a -> WF b -> chain_ok (len b) (len a) u ->
    wp (union_run E a b
          (S (S (match front u with Some c => cursor_len c | None => 0 end + cursor_len (back u)))) u)
       (fun (r : list (bool * nat)) (_ : world K unit T) =>
          wp (union_fold_gen E F a b u init)
             (fun (r' : A) (_ : world K unit T) => r' = fold_left F r init)
             (fun _ : world K unit T => False) w2)
       (fun _ : world K unit T => False) w1.
Proof. exact (fun K Q T E ck cq HL A => union_fold_gen_is_run E ck cq HL (A := A)). Qed.
Print Assumptions C08_union_fold_gen_is_run.

Theorem C08_symdiff_fold_gen_is_run :
  forall (K Q T : Type) (E : env K unit Q T) (ck : K -> N) (cq : Q -> N) (HL : Lawful E ck cq)
         (A : Type) (F : A -> bool * nat -> A) (a b : map K unit) (u : chain) (init : A)
         (w1 w2 : world K unit T),
    WF a -> WF b -> chain_ok (len a) (len b) u ->
    wp (symdiff_run E a b
          (S (S (match front u with Some c => cursor_len c | None => 0 end + cursor_len (back u)))) u)
       (fun (r : list (bool * nat)) (_ : world K unit T) =>
          wp (symdiff_fold_gen E F a b u init)
             (fun (r' : A) (_ : world K unit T) => r' = fold_left F r init)
             (fun _ : world K unit T => False) w2)
       (fun _ : world K unit T => False) w1.
Proof. exact (fun K Q T E ck cq HL A => symdiff_fold_gen_is_run E ck cq HL (A := A)). Qed.
Print Assumptions C08_symdiff_fold_gen_is_run.

(* ---------------------------------------------------------------------- *)
(* 9. non-vacuity                                                           *)
(* ---------------------------------------------------------------------- *)

(* HCK of C08_set_sub_lawful / C08_set_sub_lawful_uniq holds for the honest script's environment *)
Example C08_example_HCK :
  let sc0 := {| sc_adv := false; sc_seed := 0; sc_fk := 0; sc_fa := 0 |} in
  forall (s : cstate) (k : key), exists (k' : key) (s' : cstate),
    cloneK (env_set sc0) s k = (Some k', s') /\ kcls k' = kcls k.
Proof. intros sc0. apply env_set_cloneK. split; reflexivity. Qed.

(* &a - &b on the operands of C08_example_hyps, run with self = Set::new() of a's capacity 4:
   the result holds one element, a fresh clone (id 100) of a's element of class 6; exactly
   one clone event (of the element with id 2); nothing is dropped *)
Example C08_example_set_sub :
  let a : map key unit :=
    {| len := 3; slots := [Some ({| kid := 1; kcls := 5 |}, tt); Some ({| kid := 2; kcls := 6 |}, tt);
                           Some ({| kid := 3; kcls := 7 |}, tt); None] |} in
  let b : map key unit :=
    {| len := 3; slots := [Some ({| kid := 4; kcls := 7 |}, tt); Some ({| kid := 5; kcls := 9 |}, tt);
                           Some ({| kid := 6; kcls := 5 |}, tt)] |} in
  let E := env_set {| sc_adv := false; sc_seed := 0; sc_fk := 0; sc_fa := 0 |} in
  let w : world key unit cstate :=
    {| cb := {| n_eq := 0; n_clone := 0; n_call := 0; next_id := 100 |}; log := []; self := new_map 4 |} in
  WF (self w) /\ len (self w) = 0 /\ cap (self w) = cap a /\
  match set_sub E false a b w with
  | Ok _ w' => Spec.elems (self w') = [({| kid := 100; kcls := 6 |}, tt)] /\ cap (self w') = 4 /\
               log w' = [EvCloneK 2]
  | _ => False
  end.
Proof.
  intros a b E w. split; [apply WF_new|]. split; [reflexivity|]. split; [reflexivity|].
  vm_compute. repeat split; reflexivity.
Qed.

(* stages of consumption on the same operands: after ONE next() of a.difference(b) the cursor
   is (2,3), hint (0,1), and 1 - 1 = 0 items remain; after TWO next() of a.union(b) the chain
   has front (2,3), hint (1,4), and 4 - 2 = 2 items remain; a generic fold (sum of the slot
   numbers, +10 for items of b) over the union gives 34 = fold_left over the items yielded *)
Example C08_example_stages :
  let a : map key unit :=
    {| len := 3; slots := [Some ({| kid := 1; kcls := 5 |}, tt); Some ({| kid := 2; kcls := 6 |}, tt);
                           Some ({| kid := 3; kcls := 7 |}, tt); None] |} in
  let b : map key unit :=
    {| len := 3; slots := [Some ({| kid := 4; kcls := 7 |}, tt); Some ({| kid := 5; kcls := 9 |}, tt);
                           Some ({| kid := 6; kcls := 5 |}, tt)] |} in
  let E := env_set {| sc_adv := false; sc_seed := 0; sc_fk := 0; sc_fa := 0 |} in
  let w : world key unit cstate :=
    {| cb := {| n_eq := 0; n_clone := 0; n_call := 0; next_id := 100 |}; log := []; self := new_map 0 |} in
  let out {A} (r : res key unit cstate A) : option A := match r with Ok x _ => Some x | _ => None end in
  let F := fun (acc : nat) (it : bool * nat) => acc + snd it + (if fst it then 10 else 0) in
  out (filter_steps E a b false 1 (0, 3) w) = Some ([1], (2, 3)) /\
  diff_size_hint b (2, 3) = (0, 1) /\
  out (union_steps E a b 2 (union_init a b) w)
    = Some ([(true, 0); (true, 1)], {| front := Some (2, 3); back := (0, 3) |}) /\
  union_size_hint b {| front := Some (2, 3); back := (0, 3) |} = (1, 4) /\
  out (union_run E a b 2 (union_init a b) w) = Some [(true, 0); (true, 1)] /\
  out (union_fold_gen E F a b (union_init a b) 0 w) = Some 34 /\
  fold_left F [(true, 0); (true, 1); (true, 2); (false, 1)] 0 = 34.
Proof. vm_compute. repeat split; reflexivity. Qed.

(* the hypotheses of C08_algebra_ops_keep_registers are satisfiable *)
Example C08_example_exec :
  WFx (init_world 0 0 3 3) /\
  match SSub 2 3 with SAlgebra _ _ _ _ _ | SPred _ _ _ | SSub _ _ => True | _ => False end.
Proof. split; [apply init_WFx | exact I]. Qed.

(* ======================================================================== *)
(* SECOND AUDIT CLOSURE (Proofs/MoreSet.v, section ROUND 2)

   1. THE '-' OPERATOR INCLUDING THE CONSTRUCTION OF ITS RESULT.  In C08_set_sub_lawful(_uniq)
      `cap (self w) = cap a` is a hypothesis about the set the collect loop runs on; the `Set::new()`
      of the left operand's capacity is created in Exec.step's SSub arm
      (`swap_self (new_map (cap a)) (set_sub Es debug a b)`: run set_sub with a fresh local set in
      place of self, return that local, restore self).
        C08_swap_set_sub_lawful   no hypothesis on the surrounding world: the returned set has
                                  capacity cap a, its classes are those of a not in b, in a's order,
                                  none twice; self is untouched; the log grows by the clone events.
        C08_step_ssub             Exec.step (SSub r r') under an honest script: the observation is
                                  [1] (returned) ++ len res :: (id, class) of res's elements ++ the
                                  register r as it was ++ events lg; lg = one clone per element of the
                                  difference, then one drop per element of the temporary result res
                                  (it is destroyed after being rendered); all four registers unchanged.
   2. FOLD: the equations between the model's Chain folds and the generic loops at F = push:
        C08_filter_fold_gen_push_map   the generic loop at F = "push (g slot)" computes the model's
                                  push-slot fold and maps g over its result (same outcome, same world)
        C08_union_fold_eq_gen, C08_symdiff_fold_eq_gen, C08_siter_fold_is_gen
      for EVERY environment (no Lawful) and every world.  F pure: see the vocabulary note above.
   3. difference_ref.  src/set/difference.rs has a second adaptor, DifferenceRef, over
      Set<&T,N> against Set<&T,M>.  Model/SetOps.v has ONE difference adaptor whose operands are
      `map K unit`; a set of references is represented by the set it refers to (a reference &T
      compares by T's ==, and the harness builds the two reference-sets by copying the operands
      slot by slot, so slots and order coincide; the items yielded are compared by the slot of the
      ORIGINAL left operand they point to).  In Model/Exec.v the algebra session has kinds
      0 = difference, 1 = intersection, 2 = union, 3 = symmetric_difference, any other number
      (the harness sends 4) = difference_ref, and for such a kind every component (alg_init,
      alg_next, alg_hint, alg_fold) takes the branch of kind 0:
        C08_alg_session_difference_ref, C08_step_difference_ref   the session / the interpreter step
                                  of kind 4 IS the one of kind 0, for every script and world.
      Hence every theorem above about Difference (want = false: C08_filter_next_lawful,
      C08_filter_run_steps, C08_sel_elems, C08_difference_spec, C08_diff_hint_brackets,
      C08_diff_hint_stage, C08_diff_run_is_fold, C08_filter_fold_gen_lawful) is the theorem about
      difference_ref.  That DifferenceRef's Rust code is the same state machine as Difference's is
      the correspondence check's business (MODELLED.tsv maps both to SetOps.diff_next etc.).     *)
(* ======================================================================== *)
Require Import Proofs.ExecUniq.

Theorem C08_swap_set_sub_lawful :
  forall (Q : Type) (E : env key unit Q cstate) (debug : bool) (ck : key -> N) (cq : Q -> N)
         (HL : Lawful E ck cq)
         (HCK : forall (s : cstate) (k : key), exists (k' : key) (s' : cstate),
                   cloneK E s k = (Some k', s') /\ ck k' = ck k)
         (a b : map key unit) (w : world key unit cstate),
    WF a -> WF b -> Uniq ck (Spec.elems a) ->
    wp (swap_self (new_map (cap a)) (set_sub E debug a b))
       (fun (r : unit * map key unit) (w' : world key unit cstate) =>
          WF (snd r) /\
          cap (snd r) = cap a /\
          List.map (fun p : key * unit => ck (fst p)) (Spec.elems (snd r)) =
          List.map (fun p : key * unit => ck (fst p))
                   (filter (fun p : key * unit => negb (mem ck b (fst p))) (Spec.elems a)) /\
          NoDup (List.map (fun p : key * unit => ck (fst p)) (Spec.elems (snd r))) /\
          (forall c : N,
              In c (List.map (fun p : key * unit => ck (fst p)) (Spec.elems (snd r))) <->
              In c (List.map (fun p : key * unit => ck (fst p)) (Spec.elems a)) /\
              ~ In c (List.map (fun p : key * unit => ck (fst p)) (Spec.elems b))) /\
          self w' = self w /\
          log w' =
          log w ++ flat_map (fun p : key * unit => List.map EvCloneK (idK E (fst p)))
                            (filter (fun p : key * unit => negb (mem ck b (fst p))) (Spec.elems a)))
       (fun _ : world key unit cstate => False) w.
Proof. exact (fun Q E debug ck cq HL HCK => swap_set_sub_lawful E debug ck cq HL HCK). Qed.
Print Assumptions C08_swap_set_sub_lawful.

Theorem C08_step_ssub :
  forall (debug : bool) (sc : script) (r r' : N) (x : xworld),
    honest sc ->
    WFx x ->
    Uniq kcls (Spec.elems (get_s r x)) ->
    let a := get_s r x in
    let b := get_s r' x in
    exists (res : map key unit) (lg : list event),
      fst (step debug sc (SSub r r') x) =
      [1%N] ++ (nn (len res) :: flat_map r_spair (Spec.elems res)) ++ post_s a ++ events lg /\
      WF res /\
      cap res = cap a /\
      List.map (fun p : key * unit => kcls (fst p)) (Spec.elems res) =
      List.map (fun p : key * unit => kcls (fst p))
               (filter (fun p : key * unit => negb (mem kcls b (fst p))) (Spec.elems a)) /\
      NoDup (List.map (fun p : key * unit => kcls (fst p)) (Spec.elems res)) /\
      lg =
      List.map (fun p : key * unit => EvCloneK (kid (fst p)))
               (filter (fun p : key * unit => negb (mem kcls b (fst p))) (Spec.elems a)) ++
      List.map (fun p : key * unit => EvDrop (kid (fst p))) (Spec.elems res) /\
      (xm0 (snd (step debug sc (SSub r r') x)), xm1 (snd (step debug sc (SSub r r') x)),
       xs0 (snd (step debug sc (SSub r r') x)), xs1 (snd (step debug sc (SSub r r') x)))
      = (xm0 x, xm1 x, xs0 x, xs1 x) /\
      xdead (snd (step debug sc (SSub r r') x)) = false.
Proof. exact step_ssub. Qed.
Print Assumptions C08_step_ssub.

(* ---------------------------------------------------------------------- *)
(* 2. folds: equations                                                      *)
(* ---------------------------------------------------------------------- *)

Theorem C08_filter_fold_gen_push_map :
  forall (K Q T : Type) (E : env K unit Q T) (X : Type) (g : nat -> X) (a b : map K unit)
         (want : bool) (n lo : nat) (acc : list X) (l0 : list nat) (w : world K unit T),
    filter_fold_gen E (fun (x : list X) (i : nat) => x ++ [g i]) a b want n lo (acc ++ List.map g l0) w =
    match filter_fold E a b want n lo l0 w with
    | Ok l w' => Ok (acc ++ List.map g l) w'
    | Panic w' => Panic w'
    | UB => UB
    end.
Proof. exact (@filter_fold_gen_push_map). Qed.
Print Assumptions C08_filter_fold_gen_push_map.

Theorem C08_siter_fold_is_gen :
  forall (K T : Type) (b : map K unit) (n lo : nat) (acc : list (bool * nat)) (w : world K unit T),
    siter_fold b n lo acc w =
    siter_fold_gen (fun (x : list (bool * nat)) (i : nat) => x ++ [(true, i)]) b n lo acc w.
Proof. exact (@siter_fold_is_gen). Qed.
Print Assumptions C08_siter_fold_is_gen.

Theorem C08_union_fold_eq_gen :
  forall (K Q T : Type) (E : env K unit Q T) (a b : map K unit) (u : chain) (w : world K unit T),
    union_fold E a b u w =
    union_fold_gen E (fun (x : list (bool * nat)) (it : bool * nat) => x ++ [it]) a b u [] w.
Proof. exact (@union_fold_eq_gen). Qed.
Print Assumptions C08_union_fold_eq_gen.

Theorem C08_symdiff_fold_eq_gen :
  forall (K Q T : Type) (E : env K unit Q T) (a b : map K unit) (u : chain) (w : world K unit T),
    symdiff_fold E a b u w =
    symdiff_fold_gen E (fun (x : list (bool * nat)) (it : bool * nat) => x ++ [it]) a b u [] w.
Proof. exact (@symdiff_fold_eq_gen). Qed.
Print Assumptions C08_symdiff_fold_eq_gen.

(* ---------------------------------------------------------------------- *)
(* 3. difference_ref                                                        *)
(* ---------------------------------------------------------------------- *)

Theorem C08_alg_session_difference_ref :
  forall (sc : script) (kind : N) (a b : map key unit) (steps : nat) (mode : N)
         (w : world key unit cstate),
    kind <> 1%N /\ kind <> 2%N /\ kind <> 3%N ->
    alg_session sc kind a b steps mode w = alg_session sc 0 a b steps mode w.
Proof. exact alg_session_difference_ref. Qed.
Print Assumptions C08_alg_session_difference_ref.

Theorem C08_step_difference_ref :
  forall (sc : script) (debug : bool) (kind r r' : N) (steps : nat) (mode : N) (x : xworld),
    kind <> 1%N /\ kind <> 2%N /\ kind <> 3%N ->
    step debug sc (SAlgebra kind r r' steps mode) x = step debug sc (SAlgebra 0 r r' steps mode) x.
Proof. exact step_difference_ref. Qed.
Print Assumptions C08_step_difference_ref.

(* ---------------------------------------------------------------------- *)
(* non-vacuity                                                              *)
(* ---------------------------------------------------------------------- *)

(* registers 2 and 3 hold the operands of C08_example_hyps (built by six inserts, capacities 4
   and 3).  `&s2 - &s3`: the observation is 1, len 1, the clone (id 100000, class 6), register 2
   as it was (7777 len cap elements), events: dropped ids {100000} (the temporary result),
   cloned ids {2}; the hypotheses of C08_step_ssub hold of that world; difference_ref (kind 4)
   and difference (kind 0) give the same observation. *)
Example C08_example_ssub :
  let sc0 := {| sc_adv := false; sc_seed := 0; sc_fk := 0; sc_fa := 0 |} in
  let x0 := run_final false sc0
              [SInsert 2 (mk 1 5); SInsert 2 (mk 2 6); SInsert 2 (mk 3 7);
               SInsert 3 (mk 4 7); SInsert 3 (mk 5 9); SInsert 3 (mk 6 5)]%N (init_world 0 0 4 3) in
  honest sc0 /\ WFx x0 /\ Uniq kcls (Spec.elems (get_s 2 x0)) /\
  fst (step false sc0 (SSub 2 3) x0) =
  [1; 1; 100000; 6; 7777; 3; 4; 1; 5; 2; 6; 3; 7; 8888; 100000; 8889; 2]%N /\
  (4 <> 1 /\ 4 <> 2 /\ 4 <> 3)%N /\
  fst (step false sc0 (SAlgebra 4 2 3 1 0) x0) = fst (step false sc0 (SAlgebra 0 2 3 1 0) x0) /\
  fst (step false sc0 (SAlgebra 4 2 3 1 0) x0) =
  [1; 0; 3; 1; 0; 1; 2; 6; 0; 1; 2; 91; 93; 0; 7777; 3; 4; 1; 5; 2; 6; 3; 7; 8888; 8889]%N.
Proof.
  intros sc0 x0. assert (Hh : honest sc0) by (split; reflexivity).
  split; [exact Hh|]. split.
  { unfold x0. cbn [run_final]. do 6 (apply step_safe; [|exact I]). apply init_WFx. }
  split; [vm_compute; repeat constructor; cbn; intuition discriminate|].
  split; [vm_compute; reflexivity|].
  split; [repeat split; discriminate|].
  split; vm_compute; reflexivity.
Qed.

(* ------------------------------------------------------------------------
   The predicates under an OPERAND-DETERMINED == that is no equivalence
   (Proofs/PureEqSet.v, [Related E ck cq R]): still pure functions of the two
   operands -- which operand is iterated and which is probed, and on which side
   of == the probed set's element stands, is part of the statement.
   ------------------------------------------------------------------------ *)
Require Import Proofs.PureEq Proofs.PureEqSet.

Theorem C08_is_subset_any_relation :
  forall (K Q T : Type) (E : env K unit Q T) (ck : K -> N) (cq : Q -> N) (R : N -> N -> bool)
         (HR : Related E ck cq R) (a b : map K unit) (w : world K unit T),
    WF a -> WF b ->
    wp (is_subset E a b)
       (fun (r : bool) (w' : world K unit T) =>
          stable w w' /\
          r = (len a <=? len b) &&
              forallb (fun p => match find_rel ck R (ck (fst p)) (Spec.elems b) with Some _ => true | None => false end)
                      (Spec.elems a))
       (fun _ : world K unit T => False) w.
Proof. exact (fun K Q T E ck cq R HR => is_subset_rel E ck cq R HR). Qed.
Print Assumptions C08_is_subset_any_relation.

Theorem C08_is_disjoint_any_relation :
  forall (K Q T : Type) (E : env K unit Q T) (ck : K -> N) (cq : Q -> N) (R : N -> N -> bool)
         (HR : Related E ck cq R) (a b : map K unit) (w : world K unit T),
    WF a -> WF b ->
    wp (is_disjoint E a b)
       (fun (r : bool) (w' : world K unit T) =>
          stable w w' /\
          r = if len a <=? len b
              then forallb (fun p => match find_rel ck R (ck (fst p)) (Spec.elems b) with Some _ => false | None => true end)
                           (Spec.elems a)
              else forallb (fun p => match find_rel ck R (ck (fst p)) (Spec.elems a) with Some _ => false | None => true end)
                           (Spec.elems b))
       (fun _ : world K unit T => False) w.
Proof. exact (fun K Q T E ck cq R HR => is_disjoint_rel E ck cq R HR). Qed.
Print Assumptions C08_is_disjoint_any_relation.
